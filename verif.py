#!/usr/bin/env python3
"""Driver for the deterministic-simulation checks of rbpf (see DESIGN.md).

  python3 verif.py build
  python3 verif.py check <C09|C10|C18> [--tier quick|thorough] [--runs N] [--workers W] [--secs T]
  python3 verif.py replay <replay file>

Exit codes: 0 = the property held on everything explored (KNOWN-FINDING lines may be printed),
1 = at least one violation not listed in known_findings.json (a line
"VIOLATION property=<id> replay=<path>" is printed for each), 2 = harness error.
"""
import json
import os
import re
import shutil
import subprocess
import sys
import time
from concurrent.futures import ThreadPoolExecutor

ROOT = os.path.dirname(os.path.abspath(__file__))
SIM = os.path.join(ROOT, "sim")
TARGET = os.path.join(ROOT, "target")
BIN = os.path.join(TARGET, "release")
REPLAYS = os.path.join(ROOT, "replays")
# (selftest.py and seeded/run_all.py point this at a scratch directory while /repo is mutated:
# evidence/<id>.json describes the unchanged tree)
EVIDENCE = os.environ.get("VERIF_EVIDENCE_DIR") or os.path.join(ROOT, "evidence")
# (the override exists only so that selftest.py can exercise the KNOWN-FINDING path with a scratch file)
KNOWN = os.environ.get("VERIF_KNOWN_FINDINGS_FILE", os.path.join(ROOT, "known_findings.json"))
NCPU = os.cpu_count() or 4

ENV = dict(os.environ)
ENV["CARGO_NET_OFFLINE"] = "true"
ENV.setdefault("CARGO_TERM_COLOR", "never")


def log(*a):
    print(*a, flush=True)


def die(msg, code=2):
    log("HARNESS-ERROR: " + msg)
    sys.exit(code)


# --------------------------------------------------------------------------------------------
# build
# --------------------------------------------------------------------------------------------

def build(packages=None):
    """Rebuild the simulators (and rbpf, a path dependency on /repo) from the current tree."""
    cmd = ["cargo", "build", "--release", "--offline", "--target-dir", TARGET]
    for p in packages or []:
        cmd += ["-p", p]
    t0 = time.time()
    r = subprocess.run(cmd, cwd=SIM, env=ENV, stdout=subprocess.PIPE, stderr=subprocess.STDOUT, text=True)
    if r.returncode != 0:
        log(r.stdout[-6000:])
        die("cargo build failed (the tree under /repo does not compile with features std+cranelift?)")
    return time.time() - t0


# --------------------------------------------------------------------------------------------
# known findings
# --------------------------------------------------------------------------------------------

def load_known():
    if not os.path.exists(KNOWN):
        return []
    with open(KNOWN) as f:
        return json.load(f).get("findings", [])


def is_subsequence(needle, hay):
    it = iter(hay)
    return all(any(x == y for y in it) for x in needle)


def match_known(known, prop, vclass, kinds):
    for k in known:
        if k.get("property") != prop or k.get("class") != vclass:
            continue
        if is_subsequence(k.get("history_kinds", []), kinds):
            return k
    return None


def slug(s):
    return re.sub(r"[^A-Za-z0-9]+", "-", s).strip("-")[:60]


# --------------------------------------------------------------------------------------------
# histsim (C10, C09)
# --------------------------------------------------------------------------------------------

HIST_TIERS = {
    # runs, chunk, time budget (s), determinism re-check sample
    "quick": dict(runs=60000, chunk=500, secs=240, recheck=200, max_ops=40),
    "thorough": dict(runs=3000000, chunk=2000, secs=600, recheck=5000, max_ops=100),
}


# a chunk normally takes about a second; a worker that is still running after this long hangs
# (e.g. compiled code of a broken tree smashed its stack) and is killed
CHUNK_TIMEOUT_S = 600 if os.environ.get("VERIF_TIER") == "thorough" else 120


def run_chunk(binary, args, out, inflight):
    cmd = [binary] + args + ["--out", out, "--inflight", inflight]
    try:
        r = subprocess.run(cmd, stdout=subprocess.PIPE, stderr=subprocess.STDOUT, text=True, errors="replace", timeout=CHUNK_TIMEOUT_S)
    except subprocess.TimeoutExpired:
        return "timeout after %ds" % CHUNK_TIMEOUT_S, ""
    return r.returncode, r.stdout


def private_copy(binary, work):
    """Every process of one check executes the same private copy of the simulator, whatever another
    job does to the shared build directory meanwhile."""
    dst = os.path.join(work, os.path.basename(binary))
    shutil.copy2(binary, dst)
    return dst


def repo_state():
    try:
        head = subprocess.run(["git", "-C", "/repo", "rev-parse", "--short", "HEAD"], stdout=subprocess.PIPE, text=True).stdout.strip()
        dirty = subprocess.run(["git", "-C", "/repo", "status", "--porcelain", "--untracked-files=no"], stdout=subprocess.PIPE, text=True).stdout.strip()
        return {"head": head, "tracked_files_modified": sorted(l[3:] for l in dirty.splitlines())}
    except OSError:
        return {}


def hash_args(tier):
    """Which runs of a chunk report their event-log hash: all of them (quick) or the first 25."""
    return ["--hash-every", "1"] if tier == "quick" else ["--hash-first", "25"]


def recheck_determinism(binary, base_args, seed, hashes, tier, cfg, work, workers, with_inflight):
    """Re-execute a sample of run indices in other processes, with range boundaries that differ from
    the main pass, and compare the address-free event-log hashes."""
    det = dict(rechecked=0, mismatches=0)
    if not hashes:
        return det
    idxs = sorted(hashes)
    if tier == "quick":
        # two contiguous blocks straddling chunk boundaries of the main pass
        n = cfg["recheck"] // 2
        blocks = [(idxs[0], n), (idxs[len(idxs) // 2] + cfg["chunk"] // 2, n)]
    else:
        # the first 25 runs of each chunk were hashed: revisit a sample of chunks, starting 10 runs early
        starts = sorted(set(i for i in idxs if i % cfg["chunk"] == 0))
        want = max(1, cfg["recheck"] // 25)
        stride = max(1, len(starts) // want)
        blocks = [(max(0, s0 - 10), 35 if s0 >= 10 else 25) for s0 in starts[::stride][:want]]

    def one(b):
        s0, n = b
        out = os.path.join(work, "recheck-%d.json" % s0)
        args = ["run"] + base_args + ["--seed", str(seed), "--start", str(s0), "--count", str(n), "--hash-every", "1", "--max-violations", "1000000"]
        if with_inflight:
            rc, _ = run_chunk(binary, args, out, os.path.join(work, "inflight-recheck-%d" % s0))
        else:
            import xadd_driver
            rc, _ = xadd_driver.run_chunk(binary, args, out)
        if rc != 0 or not os.path.exists(out):
            return []
        try:
            with open(out) as f:
                d = json.load(f)
        except ValueError:
            return []
        return d["hashes"]

    with ThreadPoolExecutor(max_workers=workers) as ex:
        for hs in ex.map(one, blocks):
            for i, h in hs:
                i = int(i)
                if i in hashes:
                    det["rechecked"] += 1
                    if hashes[i] != h:
                        det["mismatches"] += 1
    return det


def read_marker(path):
    try:
        with open(path, "rb") as f:
            b = f.read(32)
        if len(b) < 32:
            return None
        vals = [int.from_bytes(b[i * 8:(i + 1) * 8], "little") for i in range(4)]
        return dict(index=vals[0], phase=vals[1], op=vals[2], valid=vals[3])
    except OSError:
        return None


def hist_check(prop, tier, seed, runs, workers, secs):
    t_total = time.time()
    cfg = dict(HIST_TIERS[tier])
    if runs:
        cfg["runs"] = runs
    if secs:
        cfg["secs"] = secs
    build_s = build(["histsim"])
    t_start = time.time()  # the time budget is for simulating, not for compiling
    work = os.path.join(TARGET, "work", "%s-%d" % (prop, os.getpid()))
    shutil.rmtree(work, ignore_errors=True)
    os.makedirs(work)
    binary = private_copy(os.path.join(BIN, "histsim"), work)
    os.makedirs(REPLAYS, exist_ok=True)
    os.makedirs(EVIDENCE, exist_ok=True)

    chunks = []
    i = 0
    while i < cfg["runs"]:
        n = min(cfg["chunk"], cfg["runs"] - i)
        chunks.append((i, n))
        i += n
    deadline = t_start + cfg["secs"]
    results = []
    crashes = []
    garbled_runs = []  # single runs whose worker report is unreadable: process memory corrupted, not evaluable
    skipped_chunks = 0

    def run_range(start, n):
        """One worker process over [start, start+n). Returns (report or None, crash record or None)."""
        out = os.path.join(work, "chunk-%d-%d.json" % (start, n))
        infl = os.path.join(work, "inflight-%d-%d" % (start, n))
        args = ["run", "--prop", prop, "--seed", str(seed), "--start", str(start), "--count", str(n), "--max-ops", str(cfg["max_ops"])] + hash_args(tier)
        rc, text = run_chunk(binary, args, out, infl)
        if rc != 0 or not os.path.exists(out):
            return None, dict(start=start, count=n, rc=rc, marker=read_marker(infl), output=text[-2000:])
        try:
            with open(out, "rb") as f:
                d = json.loads(f.read().decode("utf-8"))
        except (ValueError, UnicodeDecodeError):
            # the worker's memory was corrupted badly enough to garble its own report
            return None, dict(start=start, count=n, rc="garbled output", marker=read_marker(infl), output=text[-2000:])
        os.remove(out)
        return d, None

    def do(chunk):
        """A chunk survives the death of its worker: the runs before and after the fatal one are
        re-dispatched (a run is a pure function of its index), the fatal one is left to the crash
        attribution below."""
        nonlocal skipped_chunks
        if time.time() > deadline:
            skipped_chunks += 1
            return []
        todo = [chunk]
        reports = []
        budget = 24
        while todo:
            start, n = todo.pop()
            if n <= 0:
                continue
            d, crash = run_range(start, n)
            if d is not None:
                reports.append(d)
                continue
            m = crash["marker"]
            if m and m["valid"] == 1 and start <= m["index"] < start + n and budget > 0:
                crashes.append(crash)
                budget -= 1
                idx = m["index"]
                todo.append((idx + 1, start + n - idx - 1))
                todo.append((start, idx - start))
            elif crash["rc"] == "garbled output" and n > 1 and budget > 0:
                # the worker ran to the end but some run corrupted its memory: bisect
                budget -= 1
                todo.append((start + n // 2, n - n // 2))
                todo.append((start, n // 2))
            elif crash["rc"] == "garbled output" and n == 1:
                garbled_runs.append(start)
            else:
                crashes.append(crash)
        return reports

    with ThreadPoolExecutor(max_workers=workers) as ex:
        for ds in ex.map(do, chunks):
            results.extend(ds)

    # ---- merge ---------------------------------------------------------------------------------
    runs_done = sum(int(d["runs_done"]) for d in results)
    total_ops = sum(int(d["total_ops"]) for d in results)
    nontrivial_runs = sum(int(d["nontrivial_runs"]) for d in results)
    aborted = sum(int(d["aborted_runs"]) for d in results)
    counters = {}
    abort_reasons = {}
    kinds = {}
    states, transitions, sigs = set(), set(), set()
    hashes = {}
    vclasses = {}
    violations = []
    samples = []
    for d in results:
        for k, v in d["counters"].items():
            counters[k] = counters.get(k, 0) + int(v)
        for k, v in d["abort_reasons"].items():
            abort_reasons[k] = abort_reasons.get(k, 0) + int(v)
        for k, v in d["kinds"].items():
            kinds[k] = kinds.get(k, 0) + int(v)
        states.update(d["states"])
        transitions.update(d["transitions"])
        sigs.update(d["history_sigs"])
        for i, h in d["hashes"]:
            hashes[int(i)] = h
        for k, v in d["violation_classes"].items():
            vclasses[k] = vclasses.get(k, 0) + int(v)
        violations.extend(d["violations"])
        if len(samples) < 3:
            samples.extend(d["samples"][: 3 - len(samples)])

    # ---- determinism self-check: a sample of run indices again, in one other process ------------
    det = recheck_determinism(binary, ["--prop", prop, "--max-ops", str(cfg["max_ops"])], seed, hashes, tier, cfg, work, workers, with_inflight=True)
    det_failed = det["mismatches"] > 0

    # ---- violations -------------------------------------------------------------------------------
    known = load_known()
    unlisted = []
    unconfirmed = []  # seen once, gone when the same run is repeated in a fresh process
    known_hits = {}
    by_class = {}
    # Up to eight candidates per class: a violation that hangs on state shared between VM
    # instances (a static, a thread-local) may need the runs that preceded it in its worker process
    # and not come back alone; another run of the same class often carries the whole story itself.
    # (runs early in their worker process first: they have the least inherited state)
    for v in sorted(violations, key=lambda v: (int(v["run_index"]) % max(1, cfg["chunk"]), int(v["run_index"]))):
        if "violation" in v:
            c = by_class.setdefault(v["violation"]["class"], [])
            if len(c) < 8:
                c.append(v)
    candidates = []
    for vclass, vs in sorted(by_class.items()):
        for n, v in enumerate(vs):
            candidates.append((vclass, v, n == len(vs) - 1))
    settled = set()
    for vclass, v, last in candidates:
        if vclass in settled:
            continue
        kinds_seq = v.get("history_kinds", [])
        path = os.path.join(REPLAYS, "%s-%s-%s-%s.json" % (prop, seed, v["run_index"], slug(vclass)))
        with open(path, "w") as f:
            json.dump(v, f, indent=1)
        # the minimised file must reproduce in a fresh process
        r = subprocess.run([binary, "replay", path], stdout=subprocess.PIPE, stderr=subprocess.STDOUT, text=True)
        reproduced = r.returncode == 1 and "REPRODUCED EXACTLY" in r.stdout
        if r.returncode != 1:
            # not even the violation came back: does the run it came from still fail, in a process of its own?
            out = os.path.join(work, "confirm-%s.json" % v["run_index"])
            rc, _ = run_chunk(binary, ["run", "--prop", prop, "--seed", str(seed), "--start", str(v["run_index"]), "--count", "1", "--max-ops", str(cfg["max_ops"])], out, os.path.join(work, "inflight-confirm"))
            again = False
            try:
                with open(out) as f:
                    again = bool(json.load(f)["violation_classes"])
            except Exception:
                pass
            if not again:
                if last:
                    unconfirmed.append((vclass, path))
                continue
        settled.add(vclass)
        k = match_known(known, prop, vclass, kinds_seq)
        if k is not None:
            known_hits[k.get("id", vclass)] = (k, path)
        else:
            unlisted.append((vclass, path, v, reproduced))

    # a worker that died in the history-VM phase after the fresh VM passed is itself a violation
    harness_errors = []
    foreign_crashes = 0
    unevaluable_deaths = 0
    transient_deaths = 0

    def dies_again(index):
        """A death is attributed to the tree only if the very same run, alone in a fresh process and
        with a generous time limit, dies again - twice. Anything else (a stalled or killed worker, a
        full disk, the driver's own time limit on a busy machine) is transient."""
        global CHUNK_TIMEOUT_S
        saved = CHUNK_TIMEOUT_S
        CHUNK_TIMEOUT_S = 600
        try:
            markers = []
            for k in range(2):
                out = os.path.join(work, "again-%d-%d.json" % (index, k))
                infl = os.path.join(work, "inflight-again-%d-%d" % (index, k))
                rc, _ = run_chunk(binary, ["run", "--prop", prop, "--seed", str(seed), "--start", str(index), "--count", "1", "--max-ops", str(cfg["max_ops"])], out, infl)
                if rc == 0 or isinstance(rc, str):
                    return None
                mk = read_marker(infl)
                if not mk or mk["valid"] != 1:
                    return None
                markers.append(mk)
            return markers[-1] if markers[0]["phase"] == markers[1]["phase"] and markers[0]["op"] == markers[1]["op"] else None
        finally:
            CHUNK_TIMEOUT_S = saved

    for c in crashes:
        m = c["marker"]
        attributable = False
        if m and m["valid"] == 1:
            m = dies_again(m["index"])
            if m is None:
                transient_deaths += 1
                continue
            c["marker"] = m
        if m and m["valid"] == 1 and prop == "C10" and m["phase"] == 2:
            attributable = True
        elif m and m["valid"] == 1 and prop == "C10" and m["phase"] == 1:
            # the *fresh* VM killed the process: the engine dies on this program whatever the
            # history, so the run cannot be evaluated for C10 (the rest of its chunk was re-run)
            unevaluable_deaths += 1
            continue
        elif m and m["valid"] == 1 and prop == "C09":
            # is it a C10 matter (e.g. stale compiled code trampling the heap)? Ask the C10 oracle
            # about the very same scenario, in a process of its own.
            probe_out = os.path.join(work, "crash-probe-%d.json" % m["index"])
            rc, _ = run_chunk(binary, ["run", "--prop", "C10", "--gen", "C09", "--seed", str(seed), "--start", str(m["index"]), "--count", "1", "--max-ops", str(cfg["max_ops"])], probe_out, os.path.join(work, "inflight-crash-probe"))
            c10_says = False
            try:
                with open(probe_out) as f:
                    c10_says = bool(json.load(f)["violation_classes"])
            except Exception:
                pass
            if c10_says:
                foreign_crashes += 1
                continue
            attributable = True
        if attributable:
            idx = m["index"]
            r = subprocess.run([binary, "show", "--prop", prop, "--seed", str(seed), "--index", str(idx), "--json-only", "--truncate", str(m["op"] + 1), "--max-ops", str(cfg["max_ops"])], stdout=subprocess.PIPE, stderr=subprocess.PIPE, text=True)
            path = os.path.join(REPLAYS, "%s-%s-%s-process-killed.json" % (prop, seed, idx))
            try:
                rep = json.loads(r.stdout)
                if prop == "C10":
                    vclass = "history-dependent-panic-or-crash/process-killed"
                    detail = "the worker process died (status %s) while the history VM was executing operation %d; the fresh VM had passed" % (c["rc"], m["op"])
                else:
                    vclass = "context-crash/process-killed"
                    detail = "the worker process died (status %s) around operation %d of this history, and the C10 oracle finds nothing wrong with the same history: code run on behalf of the VM wrote or jumped outside its buffers" % (c["rc"], m["op"])
                rep["violation"] = {"class": vclass, "at_op": m["op"], "detail": detail}
                with open(path, "w") as f:
                    json.dump(rep, f, indent=1)
                unlisted.append((vclass, path, rep, True))
                vclasses[vclass] = vclasses.get(vclass, 0) + 1
            except Exception:
                harness_errors.append(c)
        else:
            harness_errors.append(c)

    wall = time.time() - t_total
    sim_wall = max(1e-9, time.time() - t_start)
    fault_kinds = {
        "verifier_veto": counters.get("fault_verifier_veto_fired", 0),
        "jit_page_alloc_fail": counters.get("fault_jit_page_alloc_fail_fired", 0),
        "jit_mprotect_fail": counters.get("fault_jit_mprotect_fail_fired", 0),
    }
    level_rule = (
        "Each evaluation is one seeded API history (5-%d operations over one VM kind, swarm-configured, with injected verifier " % cfg["max_ops"] +
        "vetoes, JIT code-page allocation failures and mprotect(PROT_EXEC) failures) executed against the real VM, an abstract model and a fresh single-use VM. "
        "A run is non-trivial if it contains a successful load, a successful compilation and an execution after a state-changing call; "
        "distinct_nontrivial counts distinct history signatures (hash of the sequence of (operation kind, outcome, abstract state)) among non-trivial runs."
    )
    ev = {
        "property_id": prop,
        "tier": tier,
        "seed": seed,
        "level": "exploration",
        "coverage": {
            "evaluations": runs_done,
            "distinct_nontrivial": len(sigs),
            "rule": level_rule,
            "samples": samples if samples else [{"note": "no violation-free non-trivial run in this batch"}],
            "states": len(states),
            "transitions": len(transitions),
            "operations_executed": counters.get("ops_executed", 0),
            "operations_generated": total_ops,
            "nontrivial_runs": nontrivial_runs,
            "aborted_runs": aborted,
            "abort_reasons": abort_reasons,
            "runs_per_hour": int(runs_done / sim_wall * 3600),
            "simulated_time": "logical steps only (%d API operations + %d observation sweeps); the property involves no clock or timer" % (counters.get("ops_executed", 0), counters.get("sweeps", 0)),
            "fault_kinds_fired": fault_kinds,
            "reach_probes": counters,
            "vm_kinds": kinds,
            "violation_classes": vclasses,
            "determinism_selfcheck": det,
            "chunks_not_started_time_budget": skipped_chunks,
            "real_components": ["rbpf VM structs, verifier, stack validation, interpreter, x86-64 JIT (compile + emitted code), Cranelift translation + code generator (compile + emitted code)"],
            "stub_components": ["verifier / helper / stack-usage-calculator callbacks (harness fns through rbpf's own seams)", "process allocator wrapper (fails one 4096-aligned allocation on demand)"],
            "worker_crashes": len(crashes),
            "worker_deaths_in_fresh_vm_phase_unevaluable": unevaluable_deaths,
            "worker_deaths_not_repeatable_ignored": transient_deaths,
            "repo": repo_state(),
            "runs_that_corrupted_their_worker_unevaluable": len(garbled_runs),
            "worker_deaths_attributed_to_the_other_property": foreign_crashes,
        },
        "assumptions": [
            "a fresh single-use VM built along new(None) -> set_verifier(accept-all) -> helpers -> set_program -> compile is a faithful reference for values (both sides run the same real engine code)",
            "histories are sampled by a seeded generator, not enumerated; a clean batch is evidence, not proof",
            "only faults rbpf defines a behaviour for are injected (verifier Err, null from the JIT page allocation)",
        ],
        "wall_s": round(wall, 2),
        "violations": len(unlisted),
    }
    with open(os.path.join(EVIDENCE, "%s.json" % prop), "w") as f:
        json.dump(ev, f, indent=1)
    shutil.rmtree(work, ignore_errors=True)

    log("%s %s: %d histories (%d non-trivial, %d distinct), %d abstract states, %d transitions, faults fired %s, %.1fs (build %.1fs), determinism re-check %d/%d ok" % (
        prop, tier, runs_done, nontrivial_runs, len(sigs), len(states), len(transitions), fault_kinds, wall, build_s, det["rechecked"] - det["mismatches"], det["rechecked"]))
    for kid, (k, path) in sorted(known_hits.items()):
        log("KNOWN-FINDING: property=%s %s (replay=%s)" % (prop, k.get("what", k.get("class")), path))
    for vclass, path, v, reproduced in unlisted:
        log("  class=%s minimal history=%s%s" % (vclass, v.get("history_kinds"), "" if reproduced else " (WARNING: replay in a fresh process did not reproduce exactly)"))
        log("  " + v["violation"]["detail"])
        log("VIOLATION property=%s replay=%s" % (prop, path))
    if harness_errors:
        for c in harness_errors[:3]:
            log("worker for runs %d..%d died (status %s), marker %s\n%s" % (c["start"], c["start"] + c["count"], c["rc"], c["marker"], c["output"]))
        if not unlisted:
            die("%d worker process(es) died outside the history-VM phase" % len(harness_errors))
    if unlisted:
        return 1
    if unconfirmed:
        die("%d violation(s) could not be reproduced in a fresh process (%s): the verdict is withheld" % (len(unconfirmed), ", ".join(c for c, _ in unconfirmed)))
    if det_failed and not known_hits:
        # With a violation in hand (listed or not) an address-dependent event log is a symptom (garbage read through
        # a wrong pointer); without one it means the harness itself is not deterministic.
        die("determinism self-check failed: %d of %d re-executed runs produced a different event log" % (det["mismatches"], det["rechecked"]))
    if runs_done == 0:
        die("no run executed")
    return 0


# --------------------------------------------------------------------------------------------
# replay
# --------------------------------------------------------------------------------------------

def replay(path):
    with open(path) as f:
        rep = json.load(f)
    engine = rep.get("engine")
    if engine == "histsim":
        build(["histsim"])
        r = subprocess.run([os.path.join(BIN, "histsim"), "replay", path], stdout=subprocess.PIPE, stderr=subprocess.STDOUT, text=True)
        sys.stdout.write(r.stdout)
        if r.returncode < 0 and rep.get("violation", {}).get("class", "").endswith("process-killed"):
            log("replay: the process died again (signal %d)" % -r.returncode)
            log("VIOLATION property=%s replay=%s" % (rep.get("property"), path))
            return 1
        if r.returncode < 0:
            die("replay process died with signal %d" % -r.returncode)
        return r.returncode
    elif engine in ("xaddsim", "xaddmiri"):
        import xadd_driver
        return xadd_driver.replay(path, rep)
    die("unknown engine in replay file: %r" % engine)


def main():
    a = sys.argv[1:]
    if not a:
        print(__doc__)
        return 2
    if a[0] == "build":
        s = build()
        log("built in %.1fs" % s)
        return 0
    if a[0] == "miri-setup":
        import xadd_driver
        ok, text = xadd_driver.miri_setup()
        log("miri sysroot: %s" % ("ready" if ok else "NOT available (the C18 check then runs without its Miri pass): " + text[-400:]))
        return 0
    if a[0] == "replay":
        return replay(a[1])
    if a[0] == "check":
        prop = a[1]
        tier = os.environ.get("VERIF_TIER", "quick")
        runs = workers = secs = None
        i = 2
        while i < len(a):
            if a[i] == "--tier":
                tier = a[i + 1]
            elif a[i] == "--runs":
                runs = int(a[i + 1])
            elif a[i] == "--workers":
                workers = int(a[i + 1])
            elif a[i] == "--secs":
                secs = float(a[i + 1])
            i += 2
        if tier not in ("quick", "thorough"):
            tier = "quick"
        global CHUNK_TIMEOUT_S
        CHUNK_TIMEOUT_S = 600 if tier == "thorough" else 120
        try:
            seed = int(os.environ.get("VERIF_SEED", "1"))
        except ValueError:
            seed = 1
        workers = workers or NCPU
        if prop in ("C10", "C09"):
            return hist_check(prop, tier, seed, runs, workers, secs)
        if prop == "C18":
            import xadd_driver
            return xadd_driver.check(tier, seed, runs, workers, secs)
        die("no check for property %s" % prop)
    print(__doc__)
    return 2


if __name__ == "__main__":
    try:
        code = main()
    except SystemExit:
        raise
    except BaseException:
        # never let a driver bug look like a verdict (an uncaught exception would exit with 1)
        import traceback
        traceback.print_exc()
        print("HARNESS-ERROR: exception in the driver", flush=True)
        code = 2
    sys.exit(code)
