#!/usr/bin/env python3
"""Sensitivity and specificity proof for the checks (DESIGN.md section 2).

Each /verif/mutants/*.patch is a realistic change to rbpf: H* break C10, G* break C09, X* break
C18 (all compile; `--baseline` also confirms they pass the repository's test suite), E* are
behaviour-preserving or property-preserving and must raise NO alarm on any check.

The patch is applied to /repo, the quick check(s) run, and the patch is undone straight afterwards.
  python3 selftest.py [--baseline] [name-prefix ...]
Writes mutants/RESULTS.md; exit 0 iff every expectation is met."""
import os, subprocess, sys, time, json
ROOT = os.path.dirname(os.path.abspath(__file__))
MUT = os.path.join(ROOT, "mutants")

def sh(cmd):
    return subprocess.run(cmd, shell=True, stdout=subprocess.PIPE, stderr=subprocess.STDOUT, text=True)

def clean():
    return sh("git -C /repo status --porcelain --untracked-files=no").stdout.strip() == ""

def main():
    args = sys.argv[1:]
    baseline = "--baseline" in args
    prefixes = [a for a in args if not a.startswith("--")]
    names = sorted(f[:-6] for f in os.listdir(MUT) if f.endswith(".patch"))
    if prefixes:
        names = [n for n in names if any(n.startswith(p) for p in prefixes)]
    assert clean(), "/repo has uncommitted changes"
    rows, ok_all = [], True
    for n in names:
        kind = n[0]
        checks = {"H": ["C10"], "G": ["C09"], "X": ["C18"], "E": ["C10", "C09", "C18"]}[kind]
        r = sh("git -C /repo apply %s/%s.patch" % (MUT, n))
        if r.returncode != 0:
            rows.append((n, "-", "PATCH DOES NOT APPLY", "", "")); ok_all = False; continue
        try:
            base = ""
            if baseline:
                b = sh("cd /repo && cargo test --workspace --no-fail-fast --offline 2>&1 | grep -E '^test result' | awk '{p+=$4; f+=$6} END {print p \" passed, \" f \" failed\"}'")
                base = b.stdout.strip().splitlines()[-1] if b.stdout.strip() else "?"
            for c in checks:
                t0 = time.time()
                r = sh("cd %s && python3 verif.py check %s --tier quick" % (ROOT, c))
                classes = [l.strip().split(" ")[0] for l in r.stdout.splitlines() if l.strip().startswith("class=")]
                if any(l.startswith("  miri:") for l in r.stdout.splitlines()):
                    classes.append("class=miri/interp")
                detected = r.returncode == 1 and "VIOLATION property=%s" % c in r.stdout
                want_detect = kind != "E"
                good = (detected == want_detect) and r.returncode in (0, 1)
                verdict = ("DETECTED" if detected else ("HARNESS-ERROR" if r.returncode == 2 else "no alarm"))
                ok_all &= good
                rows.append((n, c, verdict + ("" if good else "  <-- UNEXPECTED"), ", ".join(classes)[:160], base))
                print(rows[-1], "%.0fs" % (time.time() - t0), flush=True)
        finally:
            sh("git -C /repo checkout -- .")
    assert clean()
    # ---- the KNOWN-FINDING path: a listed finding is announced and does not fail the check; an
    # unlisted violation of the same property still does -------------------------------------------
    if not prefixes or "K" in prefixes:
        import tempfile
        sh("git -C /repo apply %s/H5_jit_code_survives_set_program.patch" % MUT)
        try:
            both = {"findings": [
                {"id": "K-stale-jit", "property": "C10", "class": "stale-program/jit", "history_kinds": ["jit_compile", "set_program"], "what": "compiled code survives set_program (test entry)"},
                {"id": "K-stale-jit-crash", "property": "C10", "class": "history-dependent-panic-or-crash/execute-jit", "history_kinds": ["jit_compile", "set_program"], "what": "stale compiled code crashes (test entry)"},
                {"id": "K-stale-jit-overflow", "property": "C10", "class": "failed-call-changed-state/set_program", "history_kinds": ["jit_compile", "set_program"], "what": "stale compiled code observed in a sweep (test entry)"}]}
            one = {"findings": both["findings"][1:]}
            for label, kf, want_rc, want_known in (("all classes listed", both, 0, True), ("one class not listed", one, 1, True)):
                with tempfile.NamedTemporaryFile("w", suffix=".json", delete=False) as tf:
                    json.dump(kf, tf)
                r = sh("cd %s && VERIF_KNOWN_FINDINGS_FILE=%s python3 verif.py check C10 --tier quick" % (ROOT, tf.name))
                os.unlink(tf.name)
                has_known = "KNOWN-FINDING: property=C10" in r.stdout
                has_viol = "VIOLATION property=C10" in r.stdout
                good = r.returncode == want_rc and has_known == want_known and has_viol == (want_rc == 1)
                ok_all &= good
                rows.append(("K_known_findings (%s, tree = H5)" % label, "C10", "exit %d, KNOWN-FINDING lines: %s, VIOLATION lines: %s%s" % (r.returncode, has_known, has_viol, "" if good else "  <-- UNEXPECTED"), "", ""))
                print(rows[-1], flush=True)
        finally:
            sh("git -C /repo checkout -- .")
    assert clean()
    # results accumulate over invocations (a partial run only replaces its own rows)
    store_path = os.path.join(MUT, "results.json")
    store = json.load(open(store_path)) if os.path.exists(store_path) else {}
    for r in rows:
        key = "%s|%s" % (r[0], r[1])
        old = store.get(key)
        r = list(r)
        if old and not r[4]:
            r[4] = old[4]  # keep the last recorded repository-suite result when --baseline was not given
        store[key] = r
    json.dump(store, open(store_path, "w"), indent=1, sort_keys=True)
    with open(os.path.join(MUT, "RESULTS.md"), "w") as f:
        f.write("Sensitivity (H/G/X must be DETECTED by the check of their property) and specificity (E must raise no alarm);\n")
        f.write("K rows exercise the KNOWN-FINDING path. Generated by selftest.py (quick tier, VERIF_SEED=1).\n\n")
        f.write("| mutant | check | verdict | violation classes reported | repository test suite with the mutant |\n|---|---|---|---|---|\n")
        for key in sorted(store):
            f.write("| %s | %s | %s | %s | %s |\n" % tuple(store[key]))
    print("ALL EXPECTATIONS MET" if ok_all else "SOME EXPECTATIONS NOT MET")
    return 0 if ok_all else 1

def with_evidence_kept(f):
    """The checks rewrite evidence/<id>.json on every run; what they write while /repo is mutated
    goes to a scratch directory (evidence/ describes the unchanged tree)."""
    import shutil, tempfile
    scratch = tempfile.mkdtemp(prefix="evidence-scratch-")
    os.environ["VERIF_EVIDENCE_DIR"] = scratch
    try:
        return f()
    finally:
        os.environ.pop("VERIF_EVIDENCE_DIR", None)
        shutil.rmtree(scratch, ignore_errors=True)


if __name__ == "__main__":
    sys.exit(with_evidence_kept(main))
