"""C18 driver: xaddsim (native page-trap scheduler, all three engines) + xaddmiri (Miri many-seeds,
interpreter). Imported by verif.py."""
import json
import os
import shutil
import subprocess
import time
from concurrent.futures import ThreadPoolExecutor

import verif as V

XADD_TIERS = {
    "quick": dict(runs=30000, chunk=250, secs=240, recheck=200, miri_seeds=16),
    "thorough": dict(runs=3000000, chunk=500, secs=600, recheck=5000, miri_seeds=512),
}

MIRI_DIR = os.path.join(V.ROOT, "sim", "xaddmiri")


# (verif.py runs as __main__ and imports this module, which imports `verif` again as a second module
# object: settings made in verif.main() are not visible through V, so the limit is kept here)
CHUNK_TIMEOUT_S = [120]


def run_chunk(binary, args, out):
    try:
        r = subprocess.run([binary] + args + ["--out", out], stdout=subprocess.PIPE, stderr=subprocess.STDOUT, text=True, errors="replace", timeout=CHUNK_TIMEOUT_S[0])
    except subprocess.TimeoutExpired:
        return "timeout after %ds" % CHUNK_TIMEOUT_S[0], ""
    return r.returncode, r.stdout


def miri_available():
    return os.path.isdir(MIRI_DIR)


def miri_env():
    env = dict(V.ENV)
    env["MIRI_SYSROOT"] = os.path.join(V.TARGET, "miri-sysroot")
    env["CARGO_TARGET_DIR"] = os.path.join(V.TARGET, "miri")
    return env


def miri_setup():
    """Build the Miri sysroot once (offline) into /verif/target/miri-sysroot."""
    env = miri_env()
    r = subprocess.run(["cargo", "+nightly", "miri", "setup"], cwd=MIRI_DIR, env=env, stdout=subprocess.PIPE, stderr=subprocess.STDOUT, text=True)
    return r.returncode == 0, r.stdout


def miri_pass(seed, nseeds, timeout):
    """Run the interpreter-only scenario under Miri for `nseeds` scheduler seeds derived from
    VERIF_SEED. Returns dict(ran, seeds, failures=[...], wall_s, skipped_reason)."""
    t0 = time.time()
    if not miri_available():
        return dict(ran=False, seeds=0, failures=[], wall_s=0.0, skipped_reason="xaddmiri crate not present")
    ok, text = miri_setup()
    if not ok:
        return dict(ran=False, seeds=0, failures=[], wall_s=time.time() - t0, skipped_reason="miri sysroot could not be built offline: " + text[-300:])
    env = miri_env()
    lo = (seed * 1000003) % 1000000
    hi = lo + nseeds
    env["MIRIFLAGS"] = "-Zmiri-many-seeds=%d..%d -Zmiri-preemption-rate=0.1 -Zmiri-permissive-provenance -Zmiri-disable-isolation" % (lo, hi)
    cmd = ["cargo", "+nightly", "miri", "run", "--offline", "--quiet", "--", str(seed)]
    try:
        r = subprocess.run(cmd, cwd=MIRI_DIR, env=env, stdout=subprocess.PIPE, stderr=subprocess.STDOUT, text=True, timeout=timeout)
    except subprocess.TimeoutExpired:
        return dict(ran=False, seeds=0, failures=[], wall_s=time.time() - t0, skipped_reason="miri pass exceeded its %ds budget" % timeout)
    out = r.stdout
    failures = []
    ok_lines = [l for l in out.splitlines() if l.startswith("MIRI-OK")]
    if r.returncode != 0:
        # a verdict needs Miri (or the program under it) to say what is wrong: a lost update, undefined
        # behaviour or a data race. Any other non-zero exit (a build problem, an internal error of the
        # tool, a killed process) only means that the pass did not run.
        keep = [l for l in out.splitlines() if "MIRI-VIOLATION" in l or "Undefined Behavior" in l or "Data race" in l or "data race" in l]
        if not keep:
            return dict(ran=False, seeds=0, failures=[], wall_s=time.time() - t0, skipped_reason="cargo miri run exited with %s without reporting a violation: %s" % (r.returncode, out[-300:].replace("\n", " | ")))
        keep += [l for l in out.splitlines() if "failing seed" in l.lower()]
        failures.append(dict(returncode=r.returncode, lines=keep[:20], tail=out[-1500:]))
    return dict(ran=True, seeds=nseeds, seed_range=[lo, hi], failures=failures, ok_lines=len(ok_lines), wall_s=time.time() - t0, skipped_reason=None)


def check(tier, seed, runs, workers, secs):
    t_total = time.time()
    CHUNK_TIMEOUT_S[0] = 600 if tier == "thorough" else 120
    V.CHUNK_TIMEOUT_S = CHUNK_TIMEOUT_S[0]
    cfg = dict(XADD_TIERS[tier])
    if runs:
        cfg["runs"] = runs
    if secs:
        cfg["secs"] = secs
    build_s = V.build(["xaddsim"])
    t_start = time.time()  # the time budget is for simulating, not for compiling
    work = os.path.join(V.TARGET, "work", "C18-%d" % os.getpid())
    shutil.rmtree(work, ignore_errors=True)
    os.makedirs(work)
    binary = V.private_copy(os.path.join(V.BIN, "xaddsim"), work)
    os.makedirs(V.REPLAYS, exist_ok=True)
    os.makedirs(V.EVIDENCE, exist_ok=True)

    # Miri runs beside the native simulation (one core)
    miri_result = {}
    miri_budget = 200 if tier == "quick" else 900

    def miri_job():
        miri_result.update(miri_pass(seed, cfg["miri_seeds"], miri_budget))

    import threading
    mt = threading.Thread(target=miri_job)
    mt.start()

    chunks = []
    i = 0
    while i < cfg["runs"]:
        n = min(cfg["chunk"], cfg["runs"] - i)
        chunks.append((i, n))
        i += n
    deadline = t_start + cfg["secs"]
    deep = ["--deep"] if tier == "thorough" else []
    results, crashes = [], []
    skipped = [0]
    one_cpu_runs = [0]

    def do(chunk):
        start, n = chunk
        if time.time() > deadline:
            skipped[0] += 1
            return None
        out = os.path.join(work, "chunk-%d.json" % start)
        # every fourth worker process is bound to one CPU before it builds or compiles anything
        one_cpu = ["--one-cpu"] if (start // max(1, cfg["chunk"])) % 4 == 3 else []
        args = ["run", "--seed", str(seed), "--start", str(start), "--count", str(n)] + V.hash_args(tier) + deep + one_cpu
        rc, text = run_chunk(binary, args, out)
        if isinstance(rc, str) and rc.startswith("timeout"):
            # a stalled machine is not a verdict: once more, before this counts as a harness error
            rc, text = run_chunk(binary, args, out)
        if rc != 0 or not os.path.exists(out):
            crashes.append(dict(start=start, count=n, rc=rc, output=text[-2000:]))
            return None
        with open(out) as f:
            d = json.load(f)
        os.remove(out)
        if one_cpu and d.get("one_cpu_effective"):
            one_cpu_runs[0] += n  # (only where the binding took effect: exactly one CPU allowed afterwards)
        return d

    with ThreadPoolExecutor(max_workers=max(1, workers - 1)) as ex:
        for d in ex.map(do, chunks):
            if d is not None:
                results.append(d)

    runs_done = sum(int(d["runs_done"]) for d in results)
    nontrivial = sum(int(d["nontrivial_runs"]) for d in results)
    counters, vclasses = {}, {}
    sigs = set()
    hashes = {}
    violations, samples = [], []
    for d in results:
        for k, v in d["counters"].items():
            counters[k] = counters.get(k, 0) + int(v)
        for k, v in d["violation_classes"].items():
            vclasses[k] = vclasses.get(k, 0) + int(v)
        sigs.update(d["schedule_sigs"])
        for i, h in d["hashes"]:
            hashes[int(i)] = h
        violations.extend(d["violations"])
        if len(samples) < 2:
            samples.extend(d["samples"][: 2 - len(samples)])

    # determinism self-check
    det = V.recheck_determinism(binary, deep, seed, hashes, tier, cfg, work, workers, with_inflight=False)

    mt.join()

    known = V.load_known()
    unlisted, known_hits, unconfirmed = [], {}, []
    by_class = {}
    # up to eight candidates per class (see verif.py: a violation may need what preceded it in its worker)
    # (runs early in their worker process first: they have the least inherited state)
    for v in sorted(violations, key=lambda v: (int(v["run_index"]) % max(1, cfg["chunk"]), int(v["run_index"]))):
        if "violation" in v:
            c = by_class.setdefault(v["violation"]["class"], [])
            if len(c) < 8:
                c.append(v)
    candidates = []
    for vclass, vs in sorted(by_class.items()):
        for n, v in enumerate(vs):
            candidates.append((vclass, v, n == len(vs) - 1))
    settled = set()
    for vclass, v, last in candidates:
        if vclass in settled:
            continue
        path = os.path.join(V.REPLAYS, "C18-%s-%s-%s.json" % (seed, v["run_index"], V.slug(vclass)))
        with open(path, "w") as f:
            json.dump(v, f, indent=1)
        r = subprocess.run([binary, "replay", path], stdout=subprocess.PIPE, stderr=subprocess.STDOUT, text=True)
        reproduced = r.returncode == 1 and "REPRODUCED EXACTLY" in r.stdout
        if r.returncode != 1:
            out = os.path.join(work, "confirm-%s.json" % v["run_index"])
            rc, _ = run_chunk(binary, ["run", "--seed", str(seed), "--start", str(v["run_index"]), "--count", "1"] + deep + (["--one-cpu"] if v.get("one_cpu") else []), out)
            again = False
            try:
                with open(out) as f:
                    again = bool(json.load(f)["violation_classes"])
            except Exception:
                pass
            if not again:
                if last:
                    unconfirmed.append(vclass)
                continue
        settled.add(vclass)
        k = V.match_known(known, "C18", vclass, v.get("history_kinds", []))
        if k is not None:
            known_hits[k.get("id", vclass)] = (k, path)
        else:
            unlisted.append((vclass, path, v, reproduced))

    # Miri findings
    miri_violation = None
    if miri_result.get("ran") and miri_result.get("failures"):
        path = os.path.join(V.REPLAYS, "C18-%s-miri.json" % seed)
        rep = dict(engine="xaddmiri", property="C18", verif_seed=str(seed), seed_range=miri_result.get("seed_range"), violation={"class": "miri/interp", "detail": "Miri (seeded scheduler over the real interpreter source) reported a lost update, a data race or undefined behaviour"}, output=miri_result["failures"][0])
        with open(path, "w") as f:
            json.dump(rep, f, indent=1)
        k = V.match_known(known, "C18", "miri/interp", [])
        if k is None:
            miri_violation = path
            vclasses["miri/interp"] = 1

    wall = time.time() - t_total
    sim_wall = max(1e-9, time.time() - t_start)
    locked = {k: v for k, v in counters.items() if k.startswith("locked_rmw/")}
    ev = {
        "property_id": "C18",
        "tier": tier,
        "seed": seed,
        "level": "exploration",
        "coverage": {
            "evaluations": runs_done,
            "distinct_nontrivial": len(sigs),
            "rule": "Each evaluation is one seeded simulation: 2-4 executions (interpreter / x86-64 JIT / Cranelift, real machine code) with 1-4 atomic adds each on 1-3 shared words (straight-line, in counter loops, in a local function, after a helper call, with conditional jumps right after an add), first each alone, then all together under a seeded scheduler that decides the order of every access to the shared page (LOCKed RMW / load / store = one step; RMW without LOCK = two steps with a scheduling point in between). Non-trivial = at least two executions write the same 8-byte slot and their writes to it are interleaved; distinct_nontrivial counts distinct schedule signatures (hash of the sequence of (execution, engine, micro-operation kind, offset, width)) among non-trivial runs.",
            "samples": samples if samples else [{"note": "no violation-free non-trivial run in this batch"}],
            "nontrivial_runs": nontrivial,
            "runs_per_hour": int(runs_done / sim_wall * 3600),
            "simulated_time": "logical steps only: %d scheduling decisions over %d intercepted memory accesses; the property involves no clock or timer" % (counters.get("scheduling_decisions", 0), counters.get("intercepted_accesses", 0)),
            "fault_kinds_fired": {"preemption_at_memory_access (context switches)": counters.get("context_switches", 0), "preemption_inside_unlocked_rmw": counters.get("writer_inside_rmw_window", 0), "misaligned_atomic_add": counters.get("executions_with_misaligned_xadd", 0), "worker_process_bound_to_one_cpu (simulations run there)": one_cpu_runs[0]},
            "reach_probes": counters,
            "locked_rmw_opcodes_seen_per_engine": locked,
            "violation_classes": vclasses,
            "determinism_selfcheck": det,
            "miri": {k: v for k, v in miri_result.items() if k != "failures"} | {"failures": len(miri_result.get("failures", []))},
            "chunks_not_started_time_budget": skipped[0],
            "real_components": ["rbpf interpreter, x86-64 JIT compiler and emitted code, Cranelift translation, Cranelift code generator and emitted code; the CPU executes each monitored instruction natively (single step)"],
            "stub_components": ["memory model of the shared page: sequentially consistent interleaving at micro-operation granularity, only LOCKed (or implicitly locked) RMW instructions indivisible (Intel SDM vol.3 9.1); store-buffer reordering not modelled"],
            "worker_crashes": len(crashes),
            "repo": V.repo_state(),
        },
        "assumptions": [
            "x86-64 only: an RMW instruction without LOCK is a load and a store that another processor can separate; LOCKed ones are indivisible",
            "schedules are sampled by seeded strategies (uniform, sticky, PCT-style), not enumerated",
            "Miri pass covers the interpreter only (compiled code cannot run under Miri)",
        ],
        "wall_s": round(wall, 2),
        "violations": len(unlisted) + (1 if miri_violation else 0),
    }
    with open(os.path.join(V.EVIDENCE, "C18.json"), "w") as f:
        json.dump(ev, f, indent=1)
    shutil.rmtree(work, ignore_errors=True)

    V.log("C18 %s: %d simulations (%d non-trivial, %d distinct schedules), %d context switches, %d split RMWs, %.1fs (build %.1fs), determinism re-check %d/%d ok; miri: %s" % (
        tier, runs_done, nontrivial, len(sigs), counters.get("context_switches", 0), sum(v for k, v in counters.items() if k.startswith("split_unlocked_rmw")), wall, build_s,
        det["rechecked"] - det["mismatches"], det["rechecked"],
        ("%d seeds, %d failures, %.0fs" % (miri_result.get("seeds", 0), len(miri_result.get("failures", [])), miri_result.get("wall_s", 0))) if miri_result.get("ran") else "not run (%s)" % miri_result.get("skipped_reason")))
    for kid, (k, path) in sorted(known_hits.items()):
        V.log("KNOWN-FINDING: property=C18 %s (replay=%s)" % (k.get("what", k.get("class")), path))
    for vclass, path, v, reproduced in unlisted:
        V.log("  class=%s executions=%s schedule=%s%s" % (vclass, v.get("history_kinds"), v["scenario"].get("schedule"), "" if reproduced else " (WARNING: replay in a fresh process did not reproduce exactly)"))
        V.log("  " + v["violation"]["detail"])
        V.log("VIOLATION property=C18 replay=%s" % path)
    if miri_violation:
        for l in miri_result["failures"][0]["lines"][:6]:
            V.log("  miri: " + l)
        V.log("VIOLATION property=C18 replay=%s" % miri_violation)
    if unlisted or miri_violation:
        return 1
    if unconfirmed:
        V.die("%d violation(s) could not be reproduced in a fresh process (%s): the verdict is withheld" % (len(unconfirmed), ", ".join(unconfirmed)))
    if crashes:
        for c in crashes[:3]:
            V.log("worker for runs %d..%d died (status %s)\n%s" % (c["start"], c["start"] + c["count"], c["rc"], c["output"]))
        V.die("%d xaddsim worker process(es) died" % len(crashes))
    if det["mismatches"] and not known_hits:
        V.die("determinism self-check failed: %d of %d re-executed runs produced a different event log" % (det["mismatches"], det["rechecked"]))
    if runs_done == 0:
        V.die("no run executed")
    return 0


def replay(path, rep):
    if rep.get("engine") == "xaddsim":
        V.build(["xaddsim"])
        r = subprocess.run([os.path.join(V.BIN, "xaddsim"), "replay", path], stdout=subprocess.PIPE, stderr=subprocess.STDOUT, text=True)
        print(r.stdout, end="")
        if r.returncode < 0:
            V.die("replay process died with signal %d" % -r.returncode)
        return r.returncode
    # Miri: re-run the recorded seed range
    lo, hi = rep.get("seed_range", [0, 16])
    seed = int(rep.get("verif_seed", "1"))
    res = miri_pass(seed, hi - lo, 900)
    if res.get("ran") and res.get("failures"):
        for l in res["failures"][0]["lines"][:10]:
            V.log("  miri: " + l)
        V.log("VIOLATION property=C18 replay=%s" % path)
        return 1
    V.log("replay: Miri reports nothing on this tree (%s)" % (res.get("skipped_reason") or "%d seeds ok" % res.get("seeds", 0)))
    return 0
