#!/usr/bin/env python3
"""Zero-alarm soak on the unchanged tree: every check, several VERIF_SEED values, repeated (address
space layout differs from process to process). Usage: python3 soak.py [seeds] [repeats] [props...]   (VERIF_SOAK_FROM=<n>: first seed)"""
import os, subprocess, sys
ROOT = os.path.dirname(os.path.abspath(__file__))
seeds = int(sys.argv[1]) if len(sys.argv) > 1 else 6
reps = int(sys.argv[2]) if len(sys.argv) > 2 else 2
props = sys.argv[3:] or ["C10", "C09", "C18"]
bad = 0
for rep in range(reps):
    for seed in range(int(os.environ.get("VERIF_SOAK_FROM", "1")), int(os.environ.get("VERIF_SOAK_FROM", "1")) + seeds):
        for p in props:
            env = dict(os.environ, VERIF_SEED=str(seed))
            r = subprocess.run(["python3", "verif.py", "check", p, "--tier", "quick"], cwd=ROOT, env=env, stdout=subprocess.PIPE, stderr=subprocess.STDOUT, text=True)
            ok = r.returncode == 0 and "VIOLATION" not in r.stdout
            if not ok:
                bad += 1
                print("ALARM/ERROR seed=%d %s rc=%d\n%s" % (seed, p, r.returncode, r.stdout[-1500:]), flush=True)
            else:
                print("ok seed=%d %s rep=%d" % (seed, p, rep), flush=True)
print("soak: %d alarms/errors" % bad)
sys.exit(1 if bad else 0)
