//! The history simulator: executes an explicit operation list against a real VM and, step by
//! step, against (a) an abstract model of what must be loaded/compiled and (b) a fresh
//! single-use VM running the same real code, which supplies every expected *value*.

use crate::guard;
use crate::progs::*;
use crate::vmwrap::*;
use simcore::json::{self, JsonValue};
use simcore::Fnv;
use std::collections::{BTreeMap, BTreeSet};

#[derive(Clone, Copy, PartialEq, Eq, Debug)]
pub enum Prop {
    C10,
    C09,
}
impl Prop {
    pub fn name(self) -> &'static str {
        match self {
            Prop::C10 => "C10",
            Prop::C09 => "C09",
        }
    }
}

#[derive(Clone, Debug, PartialEq, Eq)]
pub enum Op {
    New { pid: Option<usize>, doff: usize, eoff: usize },
    SetProgram { pid: usize, doff: usize, eoff: usize },
    SetVerifier { vid: u8 },
    RegisterHelper { key: u32, hid: u8 },
    SetCalc { cid: u8 },
    JitCompile,
    ClCompile,
    Exec { engine: Engine, pkt: usize, mb: usize },
    ArmVeto,
    ArmAllocFail,
    ArmMprotectFail,
    /// the next set_program / register_helper is first made `times - 1` times without any observation
    /// in between (counters that wrap: 256, 65536 and their neighbours)
    Repeat { times: u32 },
}

impl Op {
    pub fn kind_name(&self) -> &'static str {
        match self {
            Op::New { .. } => "new",
            Op::SetProgram { .. } => "set_program",
            Op::SetVerifier { .. } => "set_verifier",
            Op::RegisterHelper { .. } => "register_helper",
            Op::SetCalc { .. } => "set_stack_usage_calculator",
            Op::JitCompile => "jit_compile",
            Op::ClCompile => "cranelift_compile",
            Op::Exec { engine: Engine::Interp, .. } => "execute",
            Op::Exec { engine: Engine::Jit, .. } => "execute_jit",
            Op::Exec { engine: Engine::Cl, .. } => "execute_cranelift",
            Op::ArmVeto => "fault:verifier_veto",
            Op::ArmAllocFail => "fault:jit_page_alloc_fail",
            Op::ArmMprotectFail => "fault:jit_mprotect_fail",
            Op::Repeat { .. } => "repeat_next",
        }
    }
    pub fn kind_code(&self) -> u8 {
        match self {
            Op::New { .. } => 0,
            Op::SetProgram { .. } => 1,
            Op::SetVerifier { .. } => 2,
            Op::RegisterHelper { .. } => 3,
            Op::SetCalc { .. } => 4,
            Op::JitCompile => 5,
            Op::ClCompile => 6,
            Op::Exec { engine: Engine::Interp, .. } => 7,
            Op::Exec { engine: Engine::Jit, .. } => 8,
            Op::Exec { engine: Engine::Cl, .. } => 9,
            Op::ArmVeto => 10,
            Op::ArmAllocFail => 11,
            Op::ArmMprotectFail => 12,
            Op::Repeat { .. } => 13,
        }
    }
    pub fn to_json(&self) -> JsonValue {
        let mut o = JsonValue::new_object();
        o["op"] = self.kind_name().into();
        match self {
            Op::New { pid, doff, eoff } => {
                o["pid"] = match pid {
                    Some(p) => (*p).into(),
                    None => JsonValue::Null,
                };
                o["doff"] = (*doff).into();
                o["eoff"] = (*eoff).into();
            }
            Op::SetProgram { pid, doff, eoff } => {
                o["pid"] = (*pid).into();
                o["doff"] = (*doff).into();
                o["eoff"] = (*eoff).into();
            }
            Op::SetVerifier { vid } => {
                o["vid"] = (*vid).into();
                o["verifier"] = V_NAMES[*vid as usize].into();
            }
            Op::RegisterHelper { key, hid } => {
                o["key"] = (*key).into();
                o["hid"] = (*hid).into();
                o["helper"] = H_NAMES[*hid as usize].into();
            }
            Op::SetCalc { cid } => o["cid"] = (*cid).into(),
            Op::Exec { pkt, mb, .. } => {
                o["pkt"] = (*pkt).into();
                o["mb"] = (*mb).into();
            }
            Op::Repeat { times } => o["times"] = (*times).into(),
            _ => {}
        }
        o
    }
    pub fn from_json(v: &JsonValue) -> Option<Op> {
        let name = v["op"].as_str()?;
        Some(match name {
            "new" => Op::New {
                pid: if v["pid"].is_null() { None } else { Some(v["pid"].as_usize()?) },
                doff: v["doff"].as_usize()?,
                eoff: v["eoff"].as_usize()?,
            },
            "set_program" => Op::SetProgram {
                pid: v["pid"].as_usize()?,
                doff: v["doff"].as_usize()?,
                eoff: v["eoff"].as_usize()?,
            },
            "set_verifier" => Op::SetVerifier { vid: v["vid"].as_u8()? },
            "register_helper" => Op::RegisterHelper { key: v["key"].as_u32()?, hid: v["hid"].as_u8()? },
            "set_stack_usage_calculator" => Op::SetCalc { cid: v["cid"].as_u8()? },
            "jit_compile" => Op::JitCompile,
            "cranelift_compile" => Op::ClCompile,
            "execute" => Op::Exec { engine: Engine::Interp, pkt: v["pkt"].as_usize()?, mb: v["mb"].as_usize()? },
            "execute_jit" => Op::Exec { engine: Engine::Jit, pkt: v["pkt"].as_usize()?, mb: v["mb"].as_usize()? },
            "execute_cranelift" => Op::Exec { engine: Engine::Cl, pkt: v["pkt"].as_usize()?, mb: v["mb"].as_usize()? },
            "fault:verifier_veto" => Op::ArmVeto,
            "fault:jit_page_alloc_fail" => Op::ArmAllocFail,
            "fault:jit_mprotect_fail" => Op::ArmMprotectFail,
            "repeat_next" => Op::Repeat { times: v["times"].as_u32()?.min(70000) },
            _ => return None,
        })
    }
}

#[derive(Clone, Debug)]
pub struct Scenario {
    pub kind: Kind,
    pub progs: Vec<Prog>,
    pub packets: Vec<Vec<u8>>,
    /// packet i may be a *prefix view* of packet prefix_of[i]'s buffer: same start address, shorter
    /// (possibly zero) length — e.g. successive frames in one receive buffer. Its entry in `packets`
    /// is a copy of those bytes (what the program must see).
    pub prefix_of: Vec<Option<usize>>,
    /// Mbuff kind: two caller-owned metadata buffers of the same length (possibly 0)
    pub mbuffs: Vec<Vec<u8>>,
    pub ops: Vec<Op>,
}

impl Scenario {
    pub fn to_json(&self) -> JsonValue {
        let mut o = JsonValue::new_object();
        o["kind"] = self.kind.name().into();
        o["progs"] = JsonValue::Array(self.progs.iter().map(|p| p.to_json()).collect());
        o["packets"] = JsonValue::Array(self.packets.iter().map(|p| simcore::hex(p).into()).collect());
        o["prefix_of"] = JsonValue::Array(
            (0..self.packets.len())
                .map(|i| match self.prefix_of.get(i).copied().flatten() {
                    Some(b) => b.into(),
                    None => JsonValue::Null,
                })
                .collect(),
        );
        o["mbuffs"] = JsonValue::Array(self.mbuffs.iter().map(|p| simcore::hex(p).into()).collect());
        o["ops"] = JsonValue::Array(self.ops.iter().map(|p| p.to_json()).collect());
        o
    }
    pub fn from_json(v: &JsonValue) -> Option<Scenario> {
        let mut progs = Vec::new();
        for p in v["progs"].members() {
            progs.push(Prog::from_json(p)?);
        }
        let mut packets = Vec::new();
        for p in v["packets"].members() {
            packets.push(simcore::unhex(p.as_str()?)?);
        }
        let mut mbuffs = Vec::new();
        for p in v["mbuffs"].members() {
            mbuffs.push(simcore::unhex(p.as_str()?)?);
        }
        let mut ops = Vec::new();
        for p in v["ops"].members() {
            ops.push(Op::from_json(p)?);
        }
        let mut prefix_of: Vec<Option<usize>> = v["prefix_of"].members().map(|x| x.as_usize()).collect();
        prefix_of.resize(packets.len(), None);
        for (i, b) in prefix_of.iter_mut().enumerate() {
            // only well-formed views survive (a hand-edited replay file must not make the harness unsafe)
            if let Some(base) = *b {
                if base >= packets.len() || base == i || packets[i].len() > packets[base].len() || packets[base][..packets[i].len()] != packets[i][..] {
                    *b = None;
                }
            }
        }
        Some(Scenario { kind: Kind::parse(v["kind"].as_str()?)?, progs, packets, prefix_of, mbuffs, ops })
    }
}

/// Helper keys a program calls (CALL with src = 0).
pub fn helper_keys(bytes: &[u8]) -> Vec<u32> {
    let mut v = Vec::new();
    let mut i = 0;
    while i + 8 <= bytes.len() {
        if bytes[i] == CALL && (bytes[i + 1] >> 4) == 0 {
            v.push(u32::from_le_bytes([bytes[i + 4], bytes[i + 5], bytes[i + 6], bytes[i + 7]]));
        }
        if bytes[i] == LD_DW_IMM {
            i += 8;
        }
        i += 8;
    }
    v
}

// ---------------------------------------------------------------------------------------------
// Abstract model
// ---------------------------------------------------------------------------------------------

#[derive(Clone, Debug, PartialEq, Eq)]
pub struct Compiled {
    pub pid: usize,
    pub helpers: BTreeMap<u32, u8>,
    /// compiled after the last successful load (case ii) or before it (case iii)
    pub current: bool,
}

#[derive(Clone, Debug, PartialEq, Eq)]
pub struct Model {
    pub prog: Option<usize>,
    pub verifier: u8,
    pub helpers: BTreeMap<u32, u8>,
    pub calc: Option<u8>,
    pub offsets: (usize, usize),
    pub jit: Option<Compiled>,
    pub cl: Option<Compiled>,
    /// fixed-metadata VM: bytes that programs stored in the VM's own buffer since it was last
    /// rebuilt (construction, successful set_program) - the one documented carry-over between executions
    pub meta: BTreeMap<usize, u8>,
}

#[derive(Clone, Copy, PartialEq, Eq, Debug)]
pub enum Pred {
    Ok,
    Err,
    /// decided by the fresh VM doing the same call (compilation)
    AsFresh,
}

impl Model {
    pub fn fresh(pid: Option<usize>, doff: usize, eoff: usize) -> Model {
        Model { prog: pid, verifier: V_DEFAULT, helpers: BTreeMap::new(), calc: None, offsets: (doff, eoff), jit: None, cl: None, meta: BTreeMap::new() }
    }
    pub fn compiled(&self, e: Engine) -> &Option<Compiled> {
        match e {
            Engine::Jit => &self.jit,
            Engine::Cl => &self.cl,
            Engine::Interp => unreachable!(),
        }
    }
    pub fn signature(&self) -> u64 {
        let mut h = Fnv::new();
        h.u64(self.prog.map(|p| p as u64 + 1).unwrap_or(0));
        h.byte(self.verifier);
        for (k, v) in &self.helpers {
            h.u64(*k as u64);
            h.byte(*v);
        }
        h.byte(0xfe);
        h.byte(self.calc.map(|c| c + 1).unwrap_or(0));
        h.u64(self.offsets.0 as u64);
        h.u64(self.offsets.1 as u64);
        for c in [&self.jit, &self.cl] {
            match c {
                None => h.byte(0),
                Some(c) => {
                    h.byte(if c.current { 1 } else { 2 });
                    h.u64(c.pid as u64);
                    h.byte((c.helpers == self.helpers) as u8);
                }
            }
        }
        h.finish()
    }

    /// Would a load of `prog` be accepted by the verifier in force (veto aside)?
    pub fn load_accepted(&self, prog: &Prog) -> bool {
        verifier_accepts(self.verifier, &prog.bytes)
    }
}

/// Safety rules shared by the generator and the executor: an operation that would make even a
/// *correct* VM run an unsafe program, or run a program on a buffer it is not made for, is never
/// issued (the executor skips it if a minimised history contains one).
pub fn op_is_safe(sc: &Scenario, m: Option<&Model>, op: &Op) -> bool {
    match op {
        Op::New { pid, doff, eoff } => {
            if sc.kind == Kind::Fixed && !offsets_ok(*doff, *eoff) {
                return false;
            }
            match pid {
                None => true,
                Some(p) => {
                    let prog = match sc.progs.get(*p) {
                        Some(p) => p,
                        None => return false,
                    };
                    if let Some(o) = prog.offsets {
                        if o != (*doff, *eoff) {
                            return false;
                        }
                    }
                    // an unsafe program may only be offered when the verifier surely rejects it
                    prog.safe() || !verifier_accepts(V_DEFAULT, &prog.bytes)
                }
            }
        }
        Op::SetProgram { pid, doff, eoff } => {
            let m = match m {
                Some(m) => m,
                None => return false,
            };
            if sc.kind == Kind::Fixed && !offsets_ok(*doff, *eoff) && !absurd_offsets(*doff, *eoff) {
                return false;
            }
            let prog = match sc.progs.get(*pid) {
                Some(p) => p,
                None => return false,
            };
            if let Some(o) = prog.offsets {
                if o != (*doff, *eoff) {
                    return false;
                }
            }
            prog.safe() || !m.load_accepted(prog)
        }
        Op::SetVerifier { vid } => m.is_some() && (V_DEFAULT_EQ..=V_TAG_ODD).contains(vid),
        Op::RegisterHelper { key, hid } => {
            m.is_some()
                && (*hid as usize) < H_NAMES.len()
                && match *key {
                    KEY_PROBE_R1 => *hid == H_PROBE_R1,
                    KEY_PROBE_SLOT => *hid == H_PROBE_SLOT,
                    KEY_PROBE_STACK => *hid == H_PROBE_STACK,
                    _ => *hid <= H_MIX3,
                }
        }
        Op::SetCalc { cid } => m.is_some() && *cid < N_CALCS,
        Op::JitCompile | Op::ClCompile => m.is_some(),
        Op::Exec { pkt, mb, .. } => {
            let m = match m {
                Some(m) => m,
                None => return false,
            };
            if *pkt >= sc.packets.len() || *mb >= sc.mbuffs.len().max(1) {
                return false;
            }
            match m.prog {
                None => true,
                Some(p) => {
                    let prog = &sc.progs[p];
                    let plen = if sc.kind.has_packet() { sc.packets[*pkt].len() } else { 0 };
                    let mlen = if sc.kind == Kind::Mbuff { sc.mbuffs[*mb].len() } else { 0 };
                    // a program compiled earlier may still be what a compiled engine runs on a
                    // broken tree; the guard turns that crash into an observed outcome.
                    prog.safe() && plen >= prog.min_pkt && mlen >= prog.min_mbuff
                }
            }
        }
        Op::ArmVeto | Op::ArmAllocFail | Op::ArmMprotectFail | Op::Repeat { .. } => m.is_some(),
    }
}

/// Offsets whose buffer size (max + 8) does not fit a usize: only ever offered to set_program.
pub fn absurd_offsets(doff: usize, eoff: usize) -> bool {
    doff.max(eoff).checked_add(8).is_none()
}

pub fn offsets_ok(doff: usize, eoff: usize) -> bool {
    let (lo, hi) = if doff < eoff { (doff, eoff) } else { (eoff, doff) };
    hi - lo >= 8 && hi <= 200_000
}

// ---------------------------------------------------------------------------------------------
// Run result
// ---------------------------------------------------------------------------------------------

#[derive(Clone, Debug)]
pub struct Violation {
    pub prop: Prop,
    pub class: String,
    pub at_op: usize,
    pub detail: String,
}

#[derive(Clone, Debug, Default)]
pub struct Counters {
    pub map: BTreeMap<&'static str, u64>,
    /// counters with computed names (coverage matrices)
    pub dynmap: BTreeMap<String, u64>,
}
impl Counters {
    pub fn inc_dyn(&mut self, k: String) {
        *self.dynmap.entry(k).or_insert(0) += 1;
    }
    pub fn inc(&mut self, k: &'static str) {
        *self.map.entry(k).or_insert(0) += 1;
    }
    pub fn add(&mut self, k: &'static str, n: u64) {
        *self.map.entry(k).or_insert(0) += n;
    }
    pub fn merge(&mut self, o: &Counters) {
        for (k, v) in &o.map {
            *self.map.entry(k).or_insert(0) += v;
        }
        for (k, v) in &o.dynmap {
            *self.dynmap.entry(k.clone()).or_insert(0) += v;
        }
    }
}

#[derive(Clone, Debug)]
pub struct RunResult {
    pub violation: Option<Violation>,
    /// run ended early because of a violation of the *other* property, or an unevaluable step
    pub aborted: Option<String>,
    pub log_hash: u64,
    pub history_sig: u64,
    pub nontrivial: bool,
    pub counters: Counters,
    pub states: BTreeSet<u64>,
    pub transitions: BTreeSet<u64>,
    pub trace: Vec<String>,
}

// ---------------------------------------------------------------------------------------------
// Executor
// ---------------------------------------------------------------------------------------------

struct Arena {
    progs: Vec<Vec<u8>>,
    packets: Vec<Vec<u8>>,
    mbuffs: Vec<Vec<u8>>,
    /// one byte of caller memory whose address stands for "the empty packet"
    empty_anchor: Vec<u8>,
    /// a program that stores a (changing) value into the stack slots StackLeakRead reads; run on a
    /// VM of its own between two reference executions
    polluter: Vec<u8>,
    pollutions: u32,
}

pub struct Runner<'s> {
    sc: &'s Scenario,
    mode: Prop,
    arena: Arena,
    vm: Option<AnyVm>,
    model: Option<Model>,
    pending_veto: bool,
    pending_alloc_fail: bool,
    pending_mprotect_fail: bool,
    pending_repeat: u32,
    log: Fnv,
    hist: Fnv,
    counters: Counters,
    states: BTreeSet<u64>,
    transitions: BTreeSet<u64>,
    trace: Vec<String>,
    want_trace: bool,
    // non-triviality ingredients
    saw_load_ok: bool,
    saw_compile_ok: bool,
    saw_exec_after_change: bool,
    changed_since_exec: bool,
    last_pkt: Option<usize>,
    last_fail_then_exec: bool,
}

enum Stop {
    Violation(Violation),
    Abort(String),
}

type Step<T> = Result<T, Stop>;

#[derive(Clone)]
struct ExecObs {
    outcome: Outcome,
    pkt_after: Vec<u8>,
    mb_after: Vec<u8>,
    probe_r1: Option<(u64, u64)>,
    probe_slot: Option<(u64, u64, u64)>,
    probe_stack: Option<(u64, u64)>,
    helper_log: Vec<(u8, [u64; 5])>,
    /// something was written behind a byte buffer the VM allocated for itself: (size, position)
    overflow: Option<(usize, usize)>,
}

impl<'s> Runner<'s> {
    pub fn new(sc: &'s Scenario, mode: Prop, want_trace: bool) -> Runner<'s> {
        let mut progs: Vec<Vec<u8>> = sc.progs.iter().map(|p| p.bytes.clone()).collect();
        // programs that peek at another program's bytes get that program's address in this process
        for (i, p) in sc.progs.iter().enumerate() {
            if p.class == Class::PeekOtherProgram && (p.p0 as usize) < progs.len() && p.p0 as usize != i && progs[i].len() >= 24 {
                let addr = progs[p.p0 as usize].as_ptr() as u64;
                patch_peek(&mut progs[i], addr);
            }
        }
        let arena = Arena {
            progs,
            // every packet buffer is followed by as much spare capacity as it is long (and a page):
            // on a broken tree a program that stores through "the packet pointer" may have been handed
            // the end pointer instead - its store then lands in the spare room, not in the worker's heap
            packets: sc
                .packets
                .iter()
                .map(|p| {
                    let mut v = Vec::with_capacity(p.len() * 2 + 4096);
                    v.extend_from_slice(p);
                    v
                })
                .collect(),
            mbuffs: if sc.mbuffs.is_empty() { vec![Vec::new()] } else { sc.mbuffs.clone() },
            empty_anchor: vec![0u8; 8],
            polluter: {
                let mut v = Vec::new();
                for off in LEAK_SLOTS {
                    v.extend_from_slice(&ins(STDW_IMM, 10, 0, off, 0x6b6b_6b6b));
                }
                v.extend_from_slice(&ins(MOV64_IMM, 0, 0, 0, 0));
                v.extend_from_slice(&ins(EXIT, 0, 0, 0, 0));
                v
            },
            pollutions: 0,
        };
        Runner {
            sc,
            mode,
            arena,
            vm: None,
            model: None,
            pending_veto: false,
            pending_alloc_fail: false,
            pending_mprotect_fail: false,
            pending_repeat: 0,
            log: Fnv::new(),
            hist: Fnv::new(),
            counters: Counters::default(),
            states: BTreeSet::new(),
            transitions: BTreeSet::new(),
            trace: Vec::new(),
            want_trace,
            saw_load_ok: false,
            saw_compile_ok: false,
            saw_exec_after_change: false,
            changed_since_exec: false,
            last_pkt: None,
            last_fail_then_exec: false,
        }
    }

    fn t(&mut self, s: impl FnOnce() -> String) {
        if self.want_trace {
            let s = s();
            self.trace.push(s);
        }
    }

    /// The bytes handed to the VM for pool program `pid`: its own buffer, or - for a view - the first
    /// bytes of its parent's buffer (same start address as the parent, other length).
    fn prog_slice(&self, pid: usize) -> &'static [u8] {
        let len = self.arena.progs[pid].len();
        let base = match self.sc.progs[pid].view_of {
            Some(parent) if parent < self.arena.progs.len() && self.arena.progs[parent].len() >= len && self.arena.progs[parent][..len] == self.arena.progs[pid][..] => parent,
            _ => pid,
        };
        unsafe { std::slice::from_raw_parts(self.arena.progs[base].as_ptr(), len) }
    }

    fn c10(&self, class: String, at: usize, detail: String) -> Stop {
        if self.mode == Prop::C10 {
            Stop::Violation(Violation { prop: Prop::C10, class, at_op: at, detail })
        } else {
            Stop::Abort(format!("foreign C10 violation {} at op {}: {}", class, at, detail))
        }
    }

    fn c09(&self, class: String, at: usize, detail: String) -> Option<Stop> {
        if self.mode == Prop::C09 {
            Some(Stop::Violation(Violation { prop: Prop::C09, class, at_op: at, detail }))
        } else {
            None
        }
    }

    fn pkt_buf(&mut self, pkt: usize) -> Buf {
        if !self.sc.kind.has_packet() {
            return Buf::empty_at(self.arena.empty_anchor.as_mut_ptr());
        }
        if let Some(base) = self.sc.prefix_of.get(pkt).copied().flatten() {
            // a view of the first bytes of another packet's buffer (also when it is empty)
            let len = self.sc.packets[pkt].len();
            return Buf { ptr: self.arena.packets[base].as_mut_ptr(), len };
        }
        if self.arena.packets[pkt].is_empty() {
            Buf::empty_at(self.arena.empty_anchor.as_mut_ptr())
        } else {
            Buf::of(&mut self.arena.packets[pkt])
        }
    }
    /// index of the buffer that backs packet `pkt`
    fn pkt_base(&self, pkt: usize) -> usize {
        self.sc.prefix_of.get(pkt).copied().flatten().unwrap_or(pkt)
    }
    fn mb_buf(&mut self, mb: usize) -> Buf {
        if self.sc.kind != Kind::Mbuff || self.arena.mbuffs[mb].is_empty() {
            return Buf::empty_at(unsafe { self.arena.empty_anchor.as_mut_ptr().add(4) });
        }
        Buf::of(&mut self.arena.mbuffs[mb])
    }

    /// Build a fresh single-use VM along the canonical path and bring it to "program loaded,
    /// compiled for `engine`". Returns the VM and the outcome of the compile call (Ok(0) for the
    /// interpreter).
    fn fresh_vm(&mut self, pid: usize, helpers: &BTreeMap<u32, u8>, calc: Option<u8>, offsets: (usize, usize), engine: Engine) -> Step<(AnyVm, Outcome)> {
        self.counters.inc("fresh_vms_built");
        guard::mark_phase(guard::PHASE_FRESH);
        let kind = self.sc.kind;
        let mut vm = match AnyVm::new(kind, None, offsets.0, offsets.1) {
            Ok(vm) => vm,
            Err(o) => return Err(Stop::Abort(format!("fresh VM: new(None) -> {}", o.short()))),
        };
        let o = vm.set_verifier(V_ACCEPT_ALL);
        if !o.is_ok() {
            return Err(Stop::Abort(format!("fresh VM: set_verifier(accept_all) -> {}", o.short())));
        }
        if let Some(c) = calc {
            let o = vm.set_calc(c);
            if !o.is_ok() {
                return Err(Stop::Abort(format!("fresh VM: set_calc -> {}", o.short())));
            }
        }
        for (k, h) in helpers {
            let o = vm.register_helper(*k, *h);
            if !o.is_ok() {
                return Err(Stop::Abort(format!("fresh VM: register_helper -> {}", o.short())));
            }
        }
        let bytes: &[u8] = self.prog_slice(pid);
        let o = vm.set_program(bytes, offsets.0, offsets.1);
        if !o.is_ok() {
            return Err(Stop::Abort(format!("fresh VM: set_program under accept-all -> {}", o.short())));
        }
        let co = match engine {
            Engine::Interp => Outcome::Ok(0),
            Engine::Jit => vm.jit_compile(),
            Engine::Cl => vm.cl_compile(),
        };
        tls(|t| {
            t.verifier_log.clear();
        });
        Ok((vm, co))
    }

    /// Does a fresh VM that holds verifier `vid` (and calculator `calc`) load program `pid`?
    fn fresh_load_outcome(&mut self, pid: usize, vid: u8, calc: Option<u8>, offsets: (usize, usize)) -> Step<Outcome> {
        guard::mark_phase(guard::PHASE_FRESH);
        let mut vm = match AnyVm::new(self.sc.kind, None, offsets.0, offsets.1) {
            Ok(vm) => vm,
            Err(o) => return Err(Stop::Abort(format!("fresh VM: new(None) -> {}", o.short()))),
        };
        if vid != V_DEFAULT {
            let o = vm.set_verifier(vid);
            if !o.is_ok() {
                return Err(Stop::Abort(format!("fresh VM: set_verifier -> {}", o.short())));
            }
        }
        if let Some(c) = calc {
            let o = vm.set_calc(c);
            if !o.is_ok() {
                return Err(Stop::Abort(format!("fresh VM: set_calc -> {}", o.short())));
            }
        }
        let bytes: &[u8] = self.prog_slice(pid);
        let o = vm.set_program(bytes, offsets.0, offsets.1);
        guard::mark_phase(guard::PHASE_SUT);
        Ok(o)
    }

    fn observe(&mut self, vm: &mut AnyVm, engine: Engine, pkt: usize, mb: usize) -> ExecObs {
        let pb = self.pkt_buf(pkt);
        let mbb = self.mb_buf(mb);
        tls(|t| {
            t.helper_log.clear();
            t.probe_r1 = None;
            t.probe_slot = None;
            t.probe_stack = None;
        });
        let outcome = vm.exec(engine, pb, mbb);
        let overflow = guard::check_canaries();
        let (probe_r1, probe_slot, probe_stack, helper_log) = tls(|t| (t.probe_r1.take(), t.probe_slot.take(), t.probe_stack.take(), std::mem::take(&mut t.helper_log)));
        let pkt_after = if self.sc.kind.has_packet() { self.arena.packets[self.pkt_base(pkt)].clone() } else { Vec::new() };
        let mb_after = if self.sc.kind == Kind::Mbuff { self.arena.mbuffs[mb].clone() } else { Vec::new() };
        ExecObs { outcome, pkt_after, mb_after, probe_r1, probe_slot, probe_stack, helper_log, overflow }
    }

    fn restore_buffers(&mut self, pkt: usize, mb: usize) {
        if self.sc.kind.has_packet() {
            let b = self.pkt_base(pkt);
            self.arena.packets[b].copy_from_slice(&self.sc.packets[b]);
        }
        if self.sc.kind == Kind::Mbuff && !self.sc.mbuffs.is_empty() {
            self.arena.mbuffs[mb].copy_from_slice(&self.sc.mbuffs[mb]);
        }
    }

    /// Reference observation: fresh VM, same engine, same caller buffers.
    fn reference(&mut self, pid: usize, helpers: &BTreeMap<u32, u8>, engine: Engine, pkt: usize, mb: usize, at: usize) -> Step<Option<ExecObs>> {
        let (calc, offsets) = {
            let m = self.model.as_ref().unwrap();
            (m.calc, m.offsets)
        };
        let offsets = self.sc.progs[pid].offsets.unwrap_or(offsets);
        let (mut vm, co) = self.fresh_vm(pid, helpers, calc, offsets, engine)?;
        if !co.is_ok() {
            // the engine cannot compile this program with this helper table at all
            return Ok(None);
        }
        self.restore_buffers(pkt, mb);
        let obs = self.observe(&mut vm, engine, pkt, mb);
        drop(vm);
        self.restore_buffers(pkt, mb);
        if let Some((size, pos)) = obs.overflow {
            self.counters.inc("private_buffer_overflow_seen");
            let detail = format!("fresh VM: executing {} under {} wrote at byte {} of the VM's own {}-byte metadata buffer (data offset {}, end offset {})", self.sc.progs[pid].class.name(), engine.name(), pos, size, offsets.0, offsets.1);
            if let Some(stop) = self.c09(format!("fixed-buffer-overflow/{}", engine.name()), at, detail.clone()) {
                return Err(stop);
            }
            return Err(Stop::Abort(detail));
        }
        if let Some(stop) = self.c09_check(pid, engine, pkt, mb, &obs, at, true) {
            return Err(stop);
        }
        if let Outcome::Signal(s) = obs.outcome {
            // the engine itself dies on this program, whatever the history
            return Err(Stop::Abort(format!("fresh VM crashed with signal {} on {}", s, engine.name())));
        }
        // The reference must not itself depend on earlier executions - of *any* VM in this thread or
        // process (a leak through a static or thread-local would hit the history VM and the
        // reference alike and cancel out). For the program that reads stack slots it never wrote:
        // let an unrelated VM store into those slots, then build the reference again and compare.
        if engine == Engine::Interp && self.sc.progs[pid].class == Class::StackLeakRead {
            self.pollute_interpreter_stack(offsets, pkt, mb)?;
            let (mut vm2, _) = self.fresh_vm(pid, helpers, calc, offsets, engine)?;
            self.restore_buffers(pkt, mb);
            let obs2 = self.observe(&mut vm2, engine, pkt, mb);
            drop(vm2);
            self.restore_buffers(pkt, mb);
            self.counters.inc("reference_rebuilt_after_foreign_execution");
            if !Self::same_obs(&obs, &obs2) {
                return Err(self.c10("history-dependent-result/interp".into(), at, format!("a fresh VM holding prog#{} ({}) returned {}; after an unrelated VM had executed a program that stores to its own stack, another fresh VM holding the same program returned {}: executions leak into each other across VM instances", pid, self.sc.progs[pid].class.name(), obs.outcome.short(), obs2.outcome.short())));
            }
        }
        Ok(Some(obs))
    }

    fn pollute_interpreter_stack(&mut self, offsets: (usize, usize), pkt: usize, mb: usize) -> Step<()> {
        self.arena.pollutions += 1;
        let val = 0x6b6b_0000u32 | (self.arena.pollutions & 0xffff);
        for k in 0..LEAK_SLOTS.len() {
            self.arena.polluter[k * 8 + 4..k * 8 + 8].copy_from_slice(&val.to_le_bytes());
        }
        let mut vm = match AnyVm::new(self.sc.kind, None, offsets.0, offsets.1) {
            Ok(vm) => vm,
            Err(o) => return Err(Stop::Abort(format!("polluter VM: new(None) -> {}", o.short()))),
        };
        let bytes: &[u8] = unsafe { std::slice::from_raw_parts(self.arena.polluter.as_ptr(), self.arena.polluter.len()) };
        let o = vm.set_program(bytes, offsets.0, offsets.1);
        if !o.is_ok() {
            return Err(Stop::Abort(format!("polluter VM: set_program -> {}", o.short())));
        }
        tls(|t| t.verifier_log.clear());
        self.restore_buffers(pkt, mb);
        let _ = self.observe(&mut vm, Engine::Interp, pkt, mb);
        drop(vm);
        self.restore_buffers(pkt, mb);
        Ok(())
    }

    fn same_obs(a: &ExecObs, b: &ExecObs) -> bool {
        let oc = match (&a.outcome, &b.outcome) {
            (Outcome::Ok(x), Outcome::Ok(y)) => x == y,
            (x, y) => x.same_class(y),
        };
        oc && a.pkt_after == b.pkt_after && a.mb_after == b.mb_after
    }

    /// Absolute C09 expectations on one execution of `pid` (5.4.5 of DESIGN.md). Two observation
    /// channels must agree before anything is reported.
    fn c09_check(&mut self, pid: usize, engine: Engine, pkt: usize, mb: usize, obs: &ExecObs, at: usize, fresh: bool) -> Option<Stop> {
        let prog = &self.sc.progs[pid];
        let kind = self.sc.kind;
        let who = if fresh { "fresh VM" } else { "history VM" };
        let plen = if kind.has_packet() { self.sc.packets[pkt].len() } else { 0 };
        let pptr = if plen > 0 { self.arena.packets[self.pkt_base(pkt)].as_ptr() as u64 } else { 0 };
        let r0 = match &obs.outcome {
            Outcome::Ok(v) => Some(*v),
            _ => None,
        };
        // A fresh VM that cannot execute a context probe at all (on buffers the probe is made for)
        // does not present the documented context either. An unregistered probe helper is the
        // history's business, not the VM's.
        if fresh && matches!(prog.class, Class::ProbeR1 | Class::ProbeSlotData | Class::ProbeSlotLen | Class::ProbeStack) {
            let what = match &obs.outcome {
                Outcome::Err(e) if !e.contains("unknown helper") => Some(format!("returned an error: {}", e.lines().next().unwrap_or(""))),
                Outcome::Panic(p) => Some(format!("panicked: {}", p)),
                Outcome::Signal(s) if prog.class != Class::ProbeStack => Some(format!("died with signal {}", s)),
                _ => None,
            };
            if let Some(what) = what {
                if !(prog.class == Class::ProbeStack && what.contains("out of bounds")) {
                    let class = match prog.class {
                        Class::ProbeR1 => format!("r1-context/{}/{}", kind.name(), engine.name()),
                        Class::ProbeStack => format!("stack-top/{}", engine.name()),
                        _ => format!("fixed-slot-wrong/{}", engine.name()),
                    };
                    let cfg = match prog.offsets {
                        Some((d, e)) => format!(" (data offset {}, end offset {})", d, e),
                        None => String::new(),
                    };
                    return self.c09(class, at, format!("fresh VM: the {} probe{} on packet #{} (len {}) {}", prog.class.name(), cfg, pkt, plen, what));
                }
            }
        }
        match prog.class {
            Class::ProbeR1 => {
                let expected = match kind {
                    Kind::Mbuff => {
                        if self.arena.mbuffs[mb].is_empty() || self.sc.mbuffs.is_empty() {
                            return None;
                        }
                        self.arena.mbuffs[mb].as_ptr() as u64
                    }
                    Kind::Raw => pptr,
                    Kind::NoData => 0,
                    Kind::Fixed => return None,
                };
                let (a, (b, btag)) = (r0?, obs.probe_r1?);
                if btag != prog.tag as u64 {
                    return None; // some other program ran: not this probe's business
                }
                self.counters.inc("c09_r1_checks");
                self.counters.inc_dyn(format!("c09_checked/{}/{}/{}", kind.name(), engine.name(), prog.class.name()));
                if a != expected && b != expected {
                    let rel = |v: u64| if v == 0 { "null".to_string() } else if v == pptr && pptr != 0 { "packet".to_string() } else { "other".to_string() };
                    return self.c09(
                        format!("r1-context/{}/{}", kind.name(), engine.name()),
                        at,
                        format!("{}: r1 at entry is {} by both channels (register move: {}, helper argument: {}), expected {}", who, rel(a), rel(a), rel(b), match kind { Kind::Mbuff => "metadata buffer", Kind::Raw => if plen > 0 { "packet" } else { "0" }, _ => "0" }),
                    );
                }
            }
            Class::ProbeSlotData | Class::ProbeSlotLen => {
                if kind != Kind::Fixed {
                    return None;
                }
                let a = r0?;
                let (sd, se, stag) = obs.probe_slot?;
                if stag != prog.tag as u64 {
                    return None;
                }
                self.counters.inc("c09_slot_checks");
                self.counters.inc_dyn(format!("c09_checked/{}/{}/{}", kind.name(), engine.name(), prog.class.name()));
                if prog.class == Class::ProbeSlotData {
                    if plen == 0 {
                        return None;
                    }
                    if a != pptr && sd != pptr {
                        // is it some other packet of this run (stale)?
                        let stale = (0..self.arena.packets.len()).any(|i| i != pkt && !self.arena.packets[i].is_empty() && self.arena.packets[i].as_ptr() as u64 == a);
                        let class = if stale { "fixed-slot-stale" } else { "fixed-slot-wrong" };
                        return self.c09(format!("{}/{}", class, engine.name()), at, format!("{}: data slot at offset {} does not hold the address of packet #{} (len {}) by both channels{}", who, prog.offsets.unwrap().0, pkt, plen, if stale { "; it holds another packet's address" } else { "" }));
                    }
                } else {
                    let b = se.wrapping_sub(sd);
                    if a != plen as u64 && b != plen as u64 {
                        return self.c09(format!("fixed-slot-wrong/{}", engine.name()), at, format!("{}: end slot - data slot = {} (loads) / {} (helper), expected packet length {}", who, a as i64, b as i64, plen));
                    }
                }
            }
            Class::ProbePktAbs | Class::ProbePktInd => {
                let idx = (prog.p0 + prog.p1) as usize;
                if plen < prog.min_pkt {
                    return None;
                }
                if engine == Engine::Interp && plen < idx + 8 {
                    // the interpreter bounds-checks every ldabs/ldind as an 8-byte access, whatever its
                    // width: it refuses loads that end in the packet's last 7 bytes. What it may refuse is
                    // C01/C02's business; the compiled engines are judged up to the last byte.
                    return None;
                }
                if prog.p1 < 0 && engine == Engine::Interp {
                    // a negative index register: the interpreter's plain `+` wraps in release builds and
                    // panics where overflow checks are compiled in (as here). Whether it may panic is
                    // C05's business; only the compiled engines are judged on this variant.
                    return None;
                }
                let mut word = 0u64;
                for k in (0..prog.w as usize).rev() {
                    word = (word << 8) | self.sc.packets[pkt][idx + k] as u64;
                }
                let expected = (word << 8) | prog.tag as u64;
                if let Some(v) = r0 {
                    if v & 0xff != prog.tag as u64 || (!fresh && prog.w < 8 && v >> (8 + 8 * prog.w as u32) != 0) {
                        return None; // not the value shape of this probe: another program ran (impossible on the fresh VM, where high bits are the load's own doing)
                    }
                }
                if !fresh && !matches!(obs.outcome, Outcome::Ok(_)) {
                    return None; // an error of the history VM is compared with the fresh VM (C10)
                }
                self.counters.inc("c09_pkt_checks");
                self.counters.inc_dyn(format!("c09_checked/{}/{}/{}", kind.name(), engine.name(), prog.class.name()));
                match r0 {
                    Some(v) if v == expected => {}
                    Some(v) => return self.c09(format!("packet-load-base/{}", engine.name()), at, format!("{}: {}-byte {} at packet offset {} returned {:#x}, expected {:#x}", who, prog.w, if prog.class == Class::ProbePktAbs { "ldabs" } else { "ldind" }, idx, v, expected)),
                    None => return self.c09(format!("packet-load-base/{}", engine.name()), at, format!("{}: packet load of byte {} (packet length {}) -> {}", who, idx, plen, obs.outcome.short())),
                }
            }
            Class::ProbeCallThenPkt => {
                if plen < prog.min_pkt {
                    return None;
                }
                let (i, j) = (prog.p0 as usize, prog.p1 as usize);
                let expected = ((((self.sc.packets[pkt][i] as u64) << 8) | self.sc.packets[pkt][j] as u64) << 8) | prog.tag as u64;
                if let Outcome::Ok(v) = obs.outcome {
                    if v & 0xff != prog.tag as u64 || (!fresh && v >> 24 != 0) {
                        return None;
                    }
                    self.counters.inc("c09_pkt_checks");
                    self.counters.inc_dyn(format!("c09_checked/{}/{}/{}", kind.name(), engine.name(), prog.class.name()));
                    if v != expected {
                        return self.c09(format!("packet-load-base/{}", engine.name()), at, format!("{}: ldabsb {} inside a local function and ldabsb {} after it returned gave {:#x}, expected {:#x}", who, i, j, v >> 8, expected >> 8));
                    }
                }
            }
            Class::ProbeHelperThenPkt => {
                // r0 = packet byte << 32 | low half of what the program stored at r10-512, then the tag
                let idx = prog.p0 as usize;
                if plen < prog.min_pkt {
                    return None;
                }
                let expected = ((((self.sc.packets[pkt][idx] as u64) << 32) | prog.p1 as u64) << 8) | prog.tag as u64;
                match (&obs.outcome, obs.probe_stack) {
                    (Outcome::Ok(v), Some((_, btag))) if btag == prog.tag as u64 => {
                        self.counters.inc("c09_helper_then_pkt_checks");
                        self.counters.inc_dyn(format!("c09_checked/{}/{}/{}", kind.name(), engine.name(), prog.class.name()));
                        if *v != expected {
                            let pkt_ok = (v >> 40) == (expected >> 40);
                            let class = if pkt_ok { format!("stack-top/{}", engine.name()) } else { format!("packet-load-base/{}", engine.name()) };
                            return self.c09(class, at, format!("{}: after a helper call, packet byte {} and the value stored at r10-512 read back as {:#x}, expected {:#x}", who, idx, v >> 8, expected >> 8));
                        }
                    }
                    (Outcome::Signal(s), Some((_, btag))) if fresh && btag == prog.tag as u64 => {
                        self.counters.inc("c09_helper_then_pkt_checks");
                        self.counters.inc_dyn(format!("c09_checked/{}/{}/{}", kind.name(), engine.name(), prog.class.name()));
                        return self.c09(format!("packet-load-base/{}", engine.name()), at, format!("{}: the packet load after a helper call died with signal {} (the helper itself returned normally)", who, s));
                    }
                    _ => {}
                }
            }
            Class::StackPlain => {
                // bytes stored at r10-1 and r10-512 read back (one variant across a local call, whose
                // pushes must land below the 512-byte window)
                let expected = ((prog.p0 as u64) << 8) | prog.tag as u64;
                // Across a local call the interpreter moves r10 down and back up; whether it comes
                // back right is C07's business (not applicable here), not "r10 at entry". The x86-64
                // JIT never moves r10, so there the variant with a call only says whether the pushes
                // of the call land outside the 512-byte window.
                if prog.local_call && engine != Engine::Jit {
                    return None;
                }
                if let Outcome::Ok(v) = obs.outcome {
                    if v & 0xff != prog.tag as u64 {
                        return None;
                    }
                    self.counters.inc("c09_stack_checks");
                    self.counters.inc_dyn(format!("c09_checked/{}/{}/{}", kind.name(), engine.name(), prog.class.name()));
                    if v != expected {
                        return self.c09(format!("stack-top/{}", engine.name()), at, format!("{}: bytes stored at r10-512 and r10-1 read back as {:#x}, expected {:#x}{}", who, v >> 8, expected >> 8, if prog.local_call { " (a local call was made in between)" } else { "" }));
                    }
                }
            }
            Class::ProbePktLoop => {
                if plen < prog.min_pkt {
                    return None;
                }
                let (count, step, imm) = ((prog.p1 & 0xff) as usize, ((prog.p1 >> 8) & 0xffff) as usize, (prog.p1 >> 24) as usize);
                let pk = &self.sc.packets[pkt];
                let mut acc = 0u64;
                for k in 0..count {
                    let at = prog.p0 as usize + k * step + imm;
                    let mut word = 0u64;
                    for j in (0..prog.w as usize).rev() {
                        word = (word << 8) | pk[at + j] as u64;
                    }
                    acc = acc.wrapping_mul(31).wrapping_add(word);
                }
                let expected = ((acc & 0xff_ffff) << 8) | prog.tag as u64;
                if let Outcome::Ok(v) = obs.outcome {
                    if v & 0xff != prog.tag as u64 || v >> 32 != 0 {
                        return None;
                    }
                    self.counters.inc("c09_pkt_checks");
                    self.counters.inc_dyn(format!("c09_checked/{}/{}/{}", kind.name(), engine.name(), prog.class.name()));
                    if v != expected {
                        return self.c09(format!("packet-load-base/{}", engine.name()), at, format!("{}: {} loads of {} byte(s) in a loop (index register starting at {}, step {}, immediate {}) fold to {:#x}, the packet says {:#x}", who, count, prog.w, prog.p0, step, imm, v >> 8, expected >> 8));
                    }
                }
            }
            Class::ProbePktChain => {
                if plen < prog.min_pkt {
                    return None;
                }
                let imms = chain_imms(prog);
                let via_r0 = prog.p1 & 0x100 != 0;
                let pk = &self.sc.packets[pkt];
                let mut r = prog.p0 as usize;
                let mut val = 0u64;
                for imm in &imms {
                    val = pk[(if via_r0 { r } else { prog.p0 as usize }) + imm] as u64;
                    r = val as usize;
                }
                let expected = (val << 8) | prog.tag as u64;
                if let Outcome::Ok(v) = obs.outcome {
                    if v & 0xff != prog.tag as u64 || (!fresh && v >> 16 != 0) {
                        return None;
                    }
                    self.counters.inc("c09_pkt_checks");
                    self.counters.inc_dyn(format!("c09_checked/{}/{}/{}", kind.name(), engine.name(), prog.class.name()));
                    if v != expected {
                        return self.c09(format!("packet-load-base/{}", engine.name()), at, format!("{}: {} adjacent ldindb instructions{} starting at index {} returned byte {:#x}, the packet says {:#x}", who, imms.len(), if via_r0 { ", each indexed through r0 by the byte the one before loaded," } else { " with the same source register" }, prog.p0, v >> 8, val));
                    }
                }
            }
            Class::ProbePktReload => {
                let idx = prog.p0 as usize;
                if plen < prog.min_pkt || (engine == Engine::Interp && plen < idx + 8) {
                    return None;
                }
                let mut word = 0u64;
                for k in (0..prog.w as usize).rev() {
                    word = (word << 8) | self.sc.packets[pkt][idx + k] as u64;
                }
                let m = if prog.w == 4 { 0xffff_ffffu64 } else { (1u64 << (8 * prog.w as u32)) - 1 };
                let new = (word ^ RELOAD_XOR as u64) & m;
                let expected = (new << 8) | prog.tag as u64;
                if let Outcome::Ok(v) = obs.outcome {
                    if v & 0xff != prog.tag as u64 || (!fresh && v >> (8 + 8 * prog.w as u32) != 0) {
                        return None;
                    }
                    self.counters.inc("c09_pkt_checks");
                    self.counters.inc_dyn(format!("c09_checked/{}/{}/{}", kind.name(), engine.name(), prog.class.name()));
                    if v != expected {
                        let stale = v == (word << 8) | prog.tag as u64;
                        return self.c09(format!("packet-load-base/{}", engine.name()), at, format!("{}: {} bytes at packet offset {} were loaded, overwritten with {:#x} by a plain store through the packet pointer and loaded again: got {:#x}{}", who, prog.w, idx, new, v >> 8, if stale { " - the bytes from before the store" } else { "" }));
                    }
                }
            }
            Class::StackFill => {
                if plen < prog.min_pkt {
                    return None;
                }
                let expected = prog.p0 as u64;
                if let Outcome::Ok(v) = obs.outcome {
                    if v & 0xff != prog.tag as u64 {
                        return None;
                    }
                    self.counters.inc("c09_stack_checks");
                    self.counters.inc_dyn(format!("c09_checked/{}/{}/{}", kind.name(), engine.name(), prog.class.name()));
                    if v != expected {
                        return self.c09(format!("stack-not-private/{}", engine.name()), at, format!("{}: all 64 slots of the stack were written, then came arithmetic, byte swaps, packet loads and a helper call; the slots fold to {:#x}, expected {:#x}: something else wrote inside [r10-512, r10)", who, v >> 8, expected >> 8));
                    }
                }
            }
            Class::ProbeStack => {
                let expected = prog.p0 as u64;
                self.counters.inc("c09_stack_checks");
                self.counters.inc_dyn(format!("c09_checked/{}/{}/{}", kind.name(), engine.name(), prog.class.name()));
                match (&obs.outcome, obs.probe_stack) {
                    (Outcome::Ok(a), Some((b, btag))) => {
                        if btag != prog.tag as u64 {
                            return None;
                        }
                        if *a != expected && b != expected {
                            return self.c09(format!("stack-top/{}", engine.name()), at, format!("{}: value stored at r10-512 read back as {:#x} (load) / {:#x} (helper), expected {:#x}", who, a, b, expected));
                        }
                    }
                    // errors and crashes of the history VM are compared with the fresh VM (C10); only the
                    // fresh VM's own failure says something absolute about the stack window
                    (Outcome::Err(e), _) if fresh && e.contains("out of bounds") => {
                        return self.c09(format!("stack-top/{}", engine.name()), at, format!("{}: access inside [r10-512, r10) refused: {}", who, e.lines().next().unwrap_or("")));
                    }
                    (Outcome::Signal(s), _) if fresh => {
                        return self.c09(format!("stack-top/{}", engine.name()), at, format!("{}: access inside [r10-512, r10) died with signal {}", who, s));
                    }
                    _ => {}
                }
            }
            _ => {}
        }
        None
    }

    fn log_obs(&mut self, tag: &str, engine: Engine, pid: Option<usize>, obs: &ExecObs) {
        self.log.str(tag);
        self.log.byte(engine as u8);
        self.log.byte(obs.outcome.code());
        if let Outcome::Ok(v) = obs.outcome {
            let addr_valued = pid.map(|p| matches!(self.sc.progs[p].class, Class::ProbeR1 | Class::R1Plain | Class::ProbeSlotData)).unwrap_or(false);
            if !addr_valued {
                self.log.u64(v);
            }
        }
        self.log.bytes(&obs.pkt_after);
        self.log.bytes(&obs.mb_after);
        for (h, a) in &obs.helper_log {
            self.log.byte(*h);
            for x in a {
                self.log.u64(*x);
            }
        }
    }

    /// One execution of the history VM checked against the model and the fresh VM.
    /// `ctx` is Some(op name) when this is part of an observation sweep after a failed call.
    fn checked_exec(&mut self, engine: Engine, pkt: usize, mb: usize, at: usize, ctx: Option<&'static str>) -> Step<()> {
        let m = self.model.clone().unwrap();
        let tag = match ctx {
            Some("") => "pre-sweep",
            Some(_) => "post-sweep",
            None => "exec",
        };
        let ctx = ctx.filter(|c| !c.is_empty());
        let cls = |base: String| -> String {
            match ctx {
                Some(opname) => format!("failed-call-changed-state/{}", opname),
                None => base,
            }
        };
        // --- no program loaded -----------------------------------------------------------------
        let pid = match m.prog {
            None => {
                let mut vm = self.vm.take().unwrap();
                let obs = self.observe(&mut vm, engine, pkt, mb);
                self.vm = Some(vm);
                self.restore_buffers(pkt, mb);
                self.log_obs(tag, engine, None, &obs);
                self.t(|| format!("    {}({}, pkt#{}) -> {}   [no program loaded]", tag, engine.name(), pkt, obs.outcome.short()));
                if !obs.outcome.is_err() {
                    return Err(self.c10(cls(format!("no-program-not-error/execute-{}", engine.name())), at, format!("execution with no program loaded returned {}", obs.outcome.short())));
                }
                return Ok(());
            }
            Some(p) => p,
        };
        // --- what the model allows ---------------------------------------------------------------
        #[derive(PartialEq)]
        enum Case {
            Interp,
            NeverCompiled,
            Current,
            Stale,
        }
        let case = match engine {
            Engine::Interp => Case::Interp,
            e => match m.compiled(e) {
                None => Case::NeverCompiled,
                Some(c) if c.current => Case::Current,
                Some(_) => Case::Stale,
            },
        };
        if case == Case::NeverCompiled {
            let mut vm = self.vm.take().unwrap();
            let obs = self.observe(&mut vm, engine, pkt, mb);
            self.vm = Some(vm);
            self.restore_buffers(pkt, mb);
            self.log_obs(tag, engine, Some(pid), &obs);
            self.t(|| format!("    {}({}, pkt#{}) -> {}   [never compiled]", tag, engine.name(), pkt, obs.outcome.short()));
            if !obs.outcome.is_err() {
                return Err(self.c10(cls(format!("not-compiled-not-error/{}", engine.name())), at, format!("executing compiled code that was never compiled returned {}", obs.outcome.short())));
            }
            return Ok(());
        }
        // --- reference observations (fresh VM first) ----------------------------------------------
        let mut refs: Vec<(String, ExecObs)> = Vec::new();
        if let Some(o) = self.reference(pid, &m.helpers, engine, pkt, mb, at)? {
            refs.push(("current helper table".into(), o));
        }
        if engine != Engine::Interp {
            let snap = m.compiled(engine).as_ref().unwrap().helpers.clone();
            if snap != m.helpers {
                self.counters.inc("exec_with_helper_table_changed_after_compile");
                if let Some(o) = self.reference(pid, &snap, engine, pkt, mb, at)? {
                    refs.push(("helper table at compile time".into(), o));
                }
            }
        }
        // A byte that a program stored in the fixed-metadata buffer since the last successful load
        // is still there (the carry-over C10 itself names): the fresh VM's 0 becomes that byte.
        if self.sc.progs[pid].class == Class::MetaRead {
            if let Some(b) = m.meta.get(&(self.sc.progs[pid].p0 as usize)) {
                let tagv = self.sc.progs[pid].tag as u64;
                // (C10 allows this dependence, it does not demand it: the fresh VM's answer stays acceptable)
                let mut extra = Vec::new();
                for r in refs.iter() {
                    if r.1.outcome == Outcome::Ok(tagv) {
                        let mut o = r.1.clone();
                        o.outcome = Outcome::Ok(((*b as u64) << 8) | tagv);
                        extra.push((format!("{}, with the byte this program stored in an earlier execution", r.0), o));
                    }
                }
                refs.extend(extra);
                self.counters.inc("meta_read_of_stored_byte");
            } else {
                self.counters.inc("meta_read_of_untouched_byte");
            }
        }
        // --- the history VM ------------------------------------------------------------------------
        guard::mark_phase(guard::PHASE_SUT);
        self.restore_buffers(pkt, mb);
        let mut vm = self.vm.take().unwrap();
        let obs = self.observe(&mut vm, engine, pkt, mb);
        self.vm = Some(vm);
        self.restore_buffers(pkt, mb);
        self.log_obs(tag, engine, Some(pid), &obs);
        self.t(|| format!("    {}({}, pkt#{}, mb#{}) -> {}   [expected {}]", tag, engine.name(), pkt, mb, obs.outcome.short(), refs.iter().map(|r| r.1.outcome.short()).collect::<Vec<_>>().join(" or ")));
        // (compiled code that outlived a failed re-compile is marked stale but is still this program's)
        let ran = case == Case::Interp || case == Case::Current || (case == Case::Stale && obs.outcome.is_ok());
        if self.sc.progs[pid].class == Class::MetaRead && self.sc.progs[pid].p1 & 0x100 != 0 && ran {
            let p = &self.sc.progs[pid];
            self.model.as_mut().unwrap().meta.insert(p.p0 as usize, p.p1 as u8);
        }
        if self.sc.progs[pid].class == Class::MetaStore && ran {
            // the program ran (to its end or into its failing load): its byte is in the buffer now
            let p = &self.sc.progs[pid];
            self.model.as_mut().unwrap().meta.insert(p.p0 as usize, p.p1 as u8);
            self.counters.inc(if obs.outcome.is_ok() { "meta_store_then_ok" } else { "meta_store_then_failed" });
        }
        if let Some((size, pos)) = obs.overflow {
            self.counters.inc("private_buffer_overflow_seen");
            return Err(self.c10(cls(format!("history-dependent-panic-or-crash/execute-{}", engine.name())), at, format!("history VM: {} wrote at byte {} of the VM's own {}-byte metadata buffer; a fresh VM with the loaded program does not", engine.name(), pos, size)));
        }
        // C09's absolute expectations apply to the history VM's execution whatever the fresh VM
        // says (a context that is only wrong after a particular history is still a wrong context);
        // the probe channels carry the program's tag, so a stale program is never judged here.
        //
        // Exception: in the sweep right after a call that failed, a difference from the fresh VM is
        // the failed call's doing (a C10 matter: "leaves the VM behaving exactly as before"), so
        // there the comparison with the fresh VM comes first and C09 only judges what agrees.
        let post_failure_sweep = ctx.is_some();
        if !post_failure_sweep {
            if let Some(stop) = self.c09_check(pid, engine, pkt, mb, &obs, at, false) {
                return Err(stop);
            }
        }
        // An absolute expectation that does not go through the fresh VM (a cache shared by all VMs of
        // the process would mislead the history VM and the reference alike): the straight-line helper
        // program calls its keys in program order, and the harness functions that actually ran must be
        // the ones bound to those keys - now (interpreter), or now / when the code was compiled.
        if self.sc.progs[pid].class == Class::Helper && obs.outcome.is_ok() && case != Case::Stale {
            let keys = helper_keys(&self.sc.progs[pid].bytes);
            if keys.len() == obs.helper_log.len() {
                for (i, (k, (hid, _))) in keys.iter().zip(obs.helper_log.iter()).enumerate() {
                    let now = m.helpers.get(k).copied();
                    let then = if engine == Engine::Interp { None } else { m.compiled(engine).as_ref().and_then(|c| c.helpers.get(k).copied()) };
                    self.counters.inc("helper_binding_checked_absolutely");
                    if Some(*hid) != now && Some(*hid) != then {
                        let name = |h: Option<u8>| h.map(|h| H_NAMES[h as usize].to_string()).unwrap_or("nothing".into());
                        return Err(self.c10(cls(format!("wrong-helper-called/{}", engine.name())), at, format!("call #{} of prog#{} (key {:#x}) ran harness function '{}'; bound to that key now: '{}'{}", i, pid, k, H_NAMES[*hid as usize], name(now), if engine == Engine::Interp { String::new() } else { format!(", when the code was compiled: '{}'", name(then)) })));
                    }
                }
            }
        }
        if case == Case::Stale && obs.outcome.is_err() {
            // invalidated compiled code: the documented "not compiled" error
            self.counters.inc("stale_compiled_exec_refused");
            return Ok(());
        }
        if refs.is_empty() {
            if case == Case::Stale {
                // the loaded program cannot be compiled for this engine at all, so no acceptable
                // Ok value exists: whatever ran is code of an earlier program.
                let comp = m.compiled(engine).as_ref().unwrap().clone();
                return Err(self.c10(cls(format!("stale-program/{}", engine.name())), at, format!("{} code compiled from prog#{} before prog#{} was loaded returned {}; the loaded program cannot even be compiled for this engine, so only an error is acceptable", engine.name(), comp.pid, pid, obs.outcome.short())));
            }
            // Case::Current: the model says the history VM compiled it, a fresh VM cannot: that
            // difference was already reported at the compile step. Nothing to compare here.
            self.counters.inc("exec_without_reference");
            return Ok(());
        }
        if refs.iter().any(|r| Self::same_obs(&r.1, &obs)) {
            if refs.len() == 2 && self.sc.progs[pid].class != Class::MetaRead {
                if Self::same_obs(&refs[0].1, &obs) && !Self::same_obs(&refs[1].1, &obs) {
                    self.counters.inc("compiled_code_saw_new_helper_binding");
                } else if !Self::same_obs(&refs[0].1, &obs) {
                    self.counters.inc("compiled_code_kept_old_helper_binding");
                }
            }
            if case == Case::Stale {
                self.counters.inc("stale_compiled_exec_ran_current_program");
            }
            if post_failure_sweep {
                if let Some(stop) = self.c09_check(pid, engine, pkt, mb, &obs, at, false) {
                    return Err(stop);
                }
            }
            return Ok(());
        }
        // --- mismatch: classify ---------------------------------------------------------------------
        let expected = refs.iter().map(|r| format!("{} ({})", r.1.outcome.short(), r.0)).collect::<Vec<_>>().join(" or ");
        let pdesc = |p: usize| format!("prog#{} ({}, tag {})", p, self.sc.progs[p].class.name(), self.sc.progs[p].tag);
        if matches!(obs.outcome, Outcome::Signal(_) | Outcome::Panic(_)) {
            return Err(self.c10(cls(format!("history-dependent-panic-or-crash/execute-{}", engine.name())), at, format!("history VM: {} where a fresh VM with {} gives {}", obs.outcome.short(), pdesc(pid), expected)));
        }
        if engine != Engine::Interp {
            let comp = m.compiled(engine).as_ref().unwrap().clone();
            if comp.pid != pid {
                // does it behave like the program the code was compiled from?
                let min_ok = {
                    let old = &self.sc.progs[comp.pid];
                    let plen = if self.sc.kind.has_packet() { self.sc.packets[pkt].len() } else { 0 };
                    let mlen = if self.sc.kind == Kind::Mbuff { self.sc.mbuffs[mb].len() } else { 0 };
                    old.safe() && plen >= old.min_pkt && mlen >= old.min_mbuff
                };
                if min_ok {
                    if let Ok(Some(old)) = self.reference(comp.pid, &comp.helpers, engine, pkt, mb, at) {
                        if Self::same_obs(&old, &obs) {
                            return Err(self.c10(cls(format!("stale-program/{}", engine.name())), at, format!("{} ran {} compiled earlier; the loaded program is {} (expected {}), got {}", engine.name(), pdesc(comp.pid), pdesc(pid), expected, obs.outcome.short())));
                        }
                    }
                }
                return Err(self.c10(cls(format!("stale-program/{}", engine.name())), at, format!("{} code compiled from {} before {} was loaded returned {} (expected an error or {})", engine.name(), pdesc(comp.pid), pdesc(pid), obs.outcome.short(), expected)));
            }
        }
        // is it the value of some other program of the pool (interpreter running a stale program)?
        if let Outcome::Ok(v) = obs.outcome {
            let tagv = (v & 0xff) as u8;
            if tagv != self.sc.progs[pid].tag {
                if let Some(other) = self.sc.progs.iter().position(|p| p.tag == tagv) {
                    return Err(self.c10(cls(format!("stale-program/{}", engine.name())), at, format!("{} returned {:#x}, which carries the tag of {}; the loaded program is {} (expected {})", engine.name(), v, pdesc(other), pdesc(pid), expected)));
                }
            }
        }
        let what = if obs.outcome.is_ok() && refs[0].1.outcome.is_ok() && obs.outcome == refs[0].1.outcome { "buffer bytes differ" } else { "result differs" };
        Err(self.c10(cls(format!("history-dependent-result/{}", engine.name())), at, format!("{}: history VM with {} -> {}, fresh VM -> {}", what, pdesc(pid), obs.outcome.short(), expected)))
    }

    /// One execution per available engine; used around calls that are expected to fail.
    fn sweep(&mut self, at: usize, ctx: Option<&'static str>) -> Step<()> {
        let m = match &self.model {
            Some(m) => m.clone(),
            None => return Ok(()),
        };
        self.counters.inc("sweeps");
        // pick buffers the loaded program is made for
        let (pkt, mb) = match m.prog {
            None => (0, 0),
            Some(p) => {
                let prog = &self.sc.progs[p];
                if !prog.safe() {
                    return Ok(());
                }
                let pkt = if self.sc.kind.has_packet() {
                    match (0..self.sc.packets.len()).find(|i| self.sc.packets[*i].len() >= prog.min_pkt) {
                        Some(i) => i,
                        None => return Ok(()),
                    }
                } else {
                    0
                };
                if self.sc.kind == Kind::Mbuff && self.sc.mbuffs.first().map(|b| b.len()).unwrap_or(0) < prog.min_mbuff {
                    return Ok(());
                }
                (pkt, 0)
            }
        };
        self.checked_exec(Engine::Interp, pkt, mb, at, ctx)?;
        for e in [Engine::Jit, Engine::Cl] {
            if m.compiled(e).is_some() {
                self.checked_exec(e, pkt, mb, at, ctx)?;
            }
        }
        Ok(())
    }

    fn note_state(&mut self, op: &Op, outcome_code: u8) {
        if let Some(m) = &self.model {
            let s = m.signature();
            self.states.insert(s);
            let mut h = Fnv::new();
            h.u64(s);
            h.byte(op.kind_code());
            h.byte(outcome_code);
            self.transitions.insert(h.finish());
        }
        self.hist.byte(op.kind_code());
        self.hist.byte(outcome_code);
        if let Some(m) = &self.model {
            self.hist.u64(m.signature());
        }
    }

    /// For calls that failed: the verifier in force may or may not have been consulted, but nothing
    /// else may have been.
    fn check_verifier_log_lenient(&mut self, at: usize, opname: &'static str, expect: (u8, &[u8])) -> Step<()> {
        let empty = tls(|t| t.verifier_log.is_empty());
        if empty {
            return Ok(());
        }
        self.check_verifier_log(at, opname, Some(expect))
    }

    fn check_verifier_log(&mut self, at: usize, opname: &'static str, expect: Option<(u8, &[u8])>) -> Step<()> {
        let log = tls(|t| std::mem::take(&mut t.verifier_log));
        for (vid, _h, len) in &log {
            // (not the hash of the bytes: programs that embed an address differ from process to process)
            self.log.byte(*vid);
            self.log.u64(*len as u64);
        }
        match expect {
            None => {
                if !log.is_empty() {
                    let (vid, _, len) = log[0];
                    return Err(self.c10("verifier-not-consulted/wrong-verifier".into(), at, format!("{}: harness verifier '{}' was shown {} bytes although it is not the verifier in force", opname, V_NAMES[vid as usize], len)));
                }
            }
            Some((vid, bytes)) => {
                let want = (vid, simcore::hash_bytes(bytes), bytes.len());
                if !log.contains(&want) {
                    return Err(self.c10(
                        "verifier-not-consulted".into(),
                        at,
                        format!("{}: verifier '{}' in force was not shown the {} bytes being loaded (calls seen: {})", opname, V_NAMES[vid as usize], bytes.len(), log.iter().map(|l| format!("{}:{}B", V_NAMES[l.0 as usize], l.2)).collect::<Vec<_>>().join(",")),
                    ));
                }
                if let Some(bad) = log.iter().find(|l| **l != want) {
                    return Err(self.c10("verifier-not-consulted/wrong-verifier".into(), at, format!("{}: verifier '{}' was shown {} bytes; the verifier in force is '{}' and the program has {} bytes", opname, V_NAMES[bad.0 as usize], bad.2, V_NAMES[vid as usize], bytes.len())));
                }
            }
        }
        Ok(())
    }

    /// C10 does not promise that a *compile* call that fails keeps the code compiled earlier: after
    /// a failed compile the compiled entry point may report "not compiled" or still run the (same)
    /// loaded program, never anything else.
    fn mark_compiled_uncertain(&mut self, engine: Engine) {
        let mm = self.model.as_mut().unwrap();
        let c = if engine == Engine::Jit { mm.jit.as_mut() } else { mm.cl.as_mut() };
        if let Some(c) = c {
            c.current = false;
        }
    }

    fn do_op(&mut self, at: usize, op: &Op) -> Step<()> {
        if guard::GUARD_TABLE_FULL.swap(0, std::sync::atomic::Ordering::Relaxed) == 1 {
            return Err(Stop::Abort("the allocator seam ran out of guard-table entries".into()));
        }
        guard::mark_op(at as u64);
        guard::mark_phase(guard::PHASE_SUT);
        let safe = op_is_safe(self.sc, self.model.as_ref(), op);
        if !safe {
            self.counters.inc("ops_skipped_unsafe_or_no_vm");
            self.t(|| format!("[{}] {} skipped (not applicable in this state)", at, op.kind_name()));
            return Ok(());
        }
        self.counters.inc("ops_executed");
        // faults are consumed by the very next operation, and only by one that can meet them
        let veto = std::mem::take(&mut self.pending_veto);
        let alloc_fail = std::mem::take(&mut self.pending_alloc_fail);
        let mprotect_fail = std::mem::take(&mut self.pending_mprotect_fail);
        let repeat = std::mem::take(&mut self.pending_repeat);
        self.log.byte(op.kind_code());
        match op {
            Op::ArmVeto => {
                self.pending_veto = true;
                self.t(|| format!("[{}] fault armed: the next harness-verifier call returns Err", at));
                Ok(())
            }
            Op::ArmAllocFail => {
                self.pending_alloc_fail = true;
                self.t(|| format!("[{}] fault armed: the next 4096-aligned allocation returns null", at));
                Ok(())
            }
            Op::Repeat { times } => {
                self.pending_repeat = *times;
                self.t(|| format!("[{}] the next set_program / register_helper is made {} times", at, times));
                Ok(())
            }
            Op::ArmMprotectFail => {
                self.pending_mprotect_fail = true;
                self.t(|| format!("[{}] fault armed: the next mprotect(PROT_EXEC) fails with EACCES", at));
                Ok(())
            }
            Op::New { pid, doff, eoff } => {
                let bytes: Option<&[u8]> = pid.map(|p| self.prog_slice(p));
                let predicted_ok = match pid {
                    None => true,
                    Some(p) => verifier_accepts(V_DEFAULT, &self.sc.progs[*p].bytes),
                };
                tls(|t| t.verifier_log.clear());
                let r = AnyVm::new(self.sc.kind, bytes, *doff, *eoff);
                let oc = match &r {
                    Ok(_) => Outcome::Ok(0),
                    Err(o) => o.clone(),
                };
                self.log.byte(oc.code());
                self.t(|| format!("[{}] new({}, {}, {}) -> {}", at, pid.map(|p| format!("prog#{}", p)).unwrap_or("None".into()), doff, eoff, oc.short()));
                match (r, predicted_ok) {
                    (Ok(vm), true) => {
                        self.vm = None; // drop the old VM first
                        self.vm = Some(vm);
                        self.model = Some(Model::fresh(*pid, *doff, *eoff));
                        if pid.is_some() {
                            self.saw_load_ok = true;
                            self.changed_since_exec = true;
                        }
                        self.note_state(op, 0);
                        self.check_verifier_log(at, "new", None)?;
                        Ok(())
                    }
                    (Ok(_), false) => Err(self.c10("load-accepted-but-verifier-rejects/new".into(), at, format!("new(Some(prog#{})) succeeded although the default verifier rejects that program", pid.unwrap()))),
                    (Err(o), true) => {
                        if matches!(o, Outcome::Err(_)) {
                            // only a violation if new(None) + set_program of the same program works
                            let fresh_loads = self.fresh_load_outcome(pid.unwrap(), V_DEFAULT, None, (*doff, *eoff))?;
                            tls(|t| t.verifier_log.clear());
                            if !fresh_loads.is_ok() {
                                self.counters.inc("new_rejected");
                                self.note_state(op, 1);
                                return Ok(());
                            }
                            Err(self.c10("load-rejected-but-verifier-accepts/new".into(), at, format!("new({:?}) failed with {} although the default verifier accepts the program and new(None) + set_program loads it", pid, o.short())))
                        } else {
                            Err(self.c10("history-dependent-panic-or-crash/new".into(), at, format!("new({:?}) -> {}", pid, o.short())))
                        }
                    }
                    (Err(o), false) => {
                        if !o.is_err() {
                            return Err(self.c10("history-dependent-panic-or-crash/new".into(), at, format!("new({:?}) -> {}", pid, o.short())));
                        }
                        self.counters.inc("new_rejected");
                        self.note_state(op, 1);
                        Ok(())
                    }
                }
            }
            Op::SetProgram { pid, doff, eoff } => {
                let m = self.model.clone().unwrap();
                let prog = &self.sc.progs[*pid];
                let harness_verifier = m.verifier != V_DEFAULT;
                let veto_fires = veto && harness_verifier;
                if veto && !harness_verifier {
                    self.counters.inc("veto_armed_but_builtin_verifier_in_force");
                }
                let absurd = self.sc.kind == Kind::Fixed && absurd_offsets(*doff, *eoff);
                let predicted_ok = m.load_accepted(prog) && !veto_fires && !absurd;
                if !predicted_ok {
                    self.sweep(at, Some(""))?;
                }
                let bytes: &[u8] = self.prog_slice(*pid);
                if absurd {
                    // no buffer can be built for these offsets: an error is fine (and must change
                    // nothing); anything else - the unchanged code panics on the overflowing sum - is
                    // not something C10 speaks about, and the VM may be half-updated: start over
                    self.counters.inc("set_program_with_offsets_no_buffer_fits");
                    let o = self.vm.as_mut().unwrap().set_program(bytes, *doff, *eoff);
                    tls(|t| t.verifier_log.clear());
                    self.log.byte(o.code());
                    self.t(|| format!("[{}] set_program(prog#{}, {:#x}, {:#x}) -> {}", at, pid, doff, eoff, o.short()));
                    if o.is_err() {
                        self.note_state(op, 1);
                        self.last_fail_then_exec = true;
                        return self.sweep(at, Some("set_program"));
                    }
                    return Err(Stop::Abort(format!("set_program with offsets no buffer fits -> {}", o.short())));
                }
                if repeat > 1 && predicted_ok {
                    for k in 1..repeat {
                        let o = self.vm.as_mut().unwrap().set_program(bytes, *doff, *eoff);
                        if k % 1024 == 0 {
                            tls(|t| t.verifier_log.clear());
                        }
                        if !o.is_ok() {
                            if !o.is_err() {
                                return Err(self.c10("history-dependent-panic-or-crash/set_program".into(), at, format!("the {}th identical set_program(prog#{}) in a row -> {}", k, pid, o.short())));
                            }
                            // an implementation may refuse what the verifier accepts - if a fresh VM
                            // with the same verifier and calculator refuses it too
                            tls(|t| t.verifier_log.clear());
                            let fresh_loads = self.fresh_load_outcome(*pid, m.verifier, m.calc, (*doff, *eoff))?;
                            tls(|t| t.verifier_log.clear());
                            if fresh_loads.is_ok() {
                                return Err(self.c10("history-dependent-result/set_program".into(), at, format!("the {}th identical set_program(prog#{}) in a row returned {} (a fresh VM loads the program)", k, pid, o.short())));
                            }
                            self.counters.inc("set_program_repetition_cut_short");
                            break;
                        }
                    }
                    self.counters.add("set_program_repeated_calls", repeat as u64 - 1);
                }
                tls(|t| {
                    t.verifier_log.clear();
                    t.veto_armed = veto_fires;
                    t.rejected = None;
                    t.calc_after_rejection = 0;
                });
                let fired_before = tls(|t| t.veto_fired);
                let o = self.vm.as_mut().unwrap().set_program(bytes, *doff, *eoff);
                let consulted = tls(|t| {
                    t.rejected = None;
                    std::mem::take(&mut t.calc_after_rejection)
                });
                if o.is_err() && consulted > 0 {
                    return Err(self.c10("failed-call-changed-state/set_program".into(), at, format!("set_program(prog#{}) -> {}: after the verifier in force had rejected the program, the stack-usage calculator was consulted about it {} time(s) - the calculator works on data the VM keeps for it, so a rejected load has touched the VM's state", pid, o.short(), consulted)));
                }
                let fired = tls(|t| {
                    t.veto_armed = false;
                    t.veto_fired - fired_before
                });
                self.counters.add("fault_verifier_veto_fired", fired);
                self.log.byte(o.code());
                self.t(|| format!("[{}] set_program(prog#{} {}, {}, {}) -> {}   [verifier in force: {}{}]", at, pid, prog.class.name(), doff, eoff, o.short(), V_NAMES[m.verifier as usize], if veto_fires { ", veto injected" } else { "" }));
                if !o.is_ok() && !o.is_err() {
                    return Err(self.c10("history-dependent-panic-or-crash/set_program".into(), at, format!("set_program -> {}", o.short())));
                }
                match (o.is_ok(), predicted_ok) {
                    (true, true) => {
                        let mm = self.model.as_mut().unwrap();
                        mm.prog = Some(*pid);
                        if self.sc.kind == Kind::Fixed {
                            mm.offsets = (*doff, *eoff);
                        }
                        mm.meta.clear();
                        if let Some(c) = mm.jit.as_mut() {
                            c.current = false;
                        }
                        if let Some(c) = mm.cl.as_mut() {
                            c.current = false;
                        }
                        if m.jit.is_some() || m.cl.is_some() {
                            self.counters.inc("load_after_compile");
                        }
                        if self.sc.kind == Kind::Fixed && m.offsets != (*doff, *eoff) {
                            self.counters.inc("fixed_offsets_reconfigured");
                        }
                        self.saw_load_ok = true;
                        self.changed_since_exec = true;
                        self.note_state(op, 0);
                        if harness_verifier {
                            self.check_verifier_log(at, "set_program", Some((m.verifier, bytes)))?;
                        } else {
                            self.check_verifier_log(at, "set_program", None)?;
                        }
                        Ok(())
                    }
                    (true, false) => Err(self.c10("load-accepted-but-verifier-rejects/set_program".into(), at, format!("set_program(prog#{}) returned Ok although the verifier in force ('{}') rejects it{}", pid, V_NAMES[m.verifier as usize], if veto_fires { " (injected veto)" } else { "" }))),
                    (false, true) => {
                        // C10 does not say that whatever the verifier accepts must load (an
                        // implementation may validate more, e.g. frame sizes): it is a violation only if
                        // a fresh VM with the same verifier and calculator does load this program.
                        tls(|t| t.verifier_log.clear());
                        let fresh_loads = self.fresh_load_outcome(*pid, m.verifier, m.calc, (*doff, *eoff))?;
                        tls(|t| t.verifier_log.clear());
                        if fresh_loads.is_ok() {
                            return Err(self.c10("load-rejected-but-verifier-accepts/set_program".into(), at, format!("set_program(prog#{}) returned {} although the verifier in force ('{}') accepts it and a fresh VM with that verifier loads it", pid, o.short(), V_NAMES[m.verifier as usize])));
                        }
                        self.counters.inc("set_program_rejected_beyond_the_verifier");
                        self.note_state(op, 1);
                        self.last_fail_then_exec = true;
                        self.sweep(at, Some("set_program"))
                    }
                    (false, false) => {
                        self.counters.inc("set_program_rejected");
                        self.note_state(op, 1);
                        // a load may be refused before the verifier is asked (e.g. a length that is
                        // not a whole number of instructions); what must not happen is that some
                        // *other* verifier, or other bytes, were involved
                        if harness_verifier {
                            self.check_verifier_log_lenient(at, "set_program", (m.verifier, bytes))?;
                        } else {
                            self.check_verifier_log(at, "set_program", None)?;
                        }
                        self.last_fail_then_exec = true;
                        self.sweep(at, Some("set_program"))
                    }
                }
            }
            Op::SetVerifier { vid } => {
                let m = self.model.clone().unwrap();
                let veto_fires = veto && m.prog.is_some() && *vid != V_REJECT_ALL;
                let predicted_ok = match m.prog {
                    None => true,
                    Some(p) => verifier_accepts(*vid, &self.sc.progs[p].bytes) && !veto_fires,
                };
                if !predicted_ok {
                    self.sweep(at, Some(""))?;
                }
                tls(|t| {
                    t.verifier_log.clear();
                    t.veto_armed = veto_fires;
                    t.rejected = None;
                    t.calc_after_rejection = 0;
                });
                let fired_before = tls(|t| t.veto_fired);
                let o = self.vm.as_mut().unwrap().set_verifier(*vid);
                let consulted = tls(|t| {
                    t.rejected = None;
                    std::mem::take(&mut t.calc_after_rejection)
                });
                if o.is_err() && consulted > 0 {
                    return Err(self.c10("failed-call-changed-state/set_verifier".into(), at, format!("set_verifier({}) -> {}: after the new verifier had rejected the loaded program, the stack-usage calculator was consulted about it {} time(s)", V_NAMES[*vid as usize], o.short(), consulted)));
                }
                let fired = tls(|t| {
                    t.veto_armed = false;
                    t.veto_fired - fired_before
                });
                self.counters.add("fault_verifier_veto_fired", fired);
                self.log.byte(o.code());
                self.t(|| format!("[{}] set_verifier({}) -> {}   [loaded: {}{}]", at, V_NAMES[*vid as usize], o.short(), m.prog.map(|p| format!("prog#{}", p)).unwrap_or("none".into()), if veto_fires { ", veto injected" } else { "" }));
                if !o.is_ok() && !o.is_err() {
                    return Err(self.c10("history-dependent-panic-or-crash/set_verifier".into(), at, format!("set_verifier -> {}", o.short())));
                }
                let loaded: Option<Vec<u8>> = m.prog.map(|p| self.arena.progs[p].clone()); // as loaded (patched)
                match (o.is_ok(), predicted_ok) {
                    (true, true) => {
                        self.model.as_mut().unwrap().verifier = *vid;
                        self.counters.inc(if m.prog.is_some() { "set_verifier_with_program" } else { "set_verifier_without_program" });
                        self.note_state(op, 0);
                        match &loaded {
                            Some(b) => self.check_verifier_log(at, "set_verifier", Some((*vid, b)))?,
                            None => self.check_verifier_log(at, "set_verifier", None)?,
                        }
                        Ok(())
                    }
                    (true, false) => Err(self.c10("load-accepted-but-verifier-rejects/set_verifier".into(), at, format!("set_verifier('{}') returned Ok although that verifier rejects the loaded program{}", V_NAMES[*vid as usize], if veto_fires { " (injected veto)" } else { "" }))),
                    (false, true) => Err(self.c10("load-rejected-but-verifier-accepts/set_verifier".into(), at, format!("set_verifier('{}') returned {} although it accepts the loaded program (or none is loaded)", V_NAMES[*vid as usize], o.short()))),
                    (false, false) => {
                        self.counters.inc("set_verifier_rejected");
                        self.note_state(op, 1);
                        if let Some(b) = &loaded {
                            self.check_verifier_log_lenient(at, "set_verifier", (*vid, b))?;
                        }
                        self.last_fail_then_exec = true;
                        self.sweep(at, Some("set_verifier"))
                    }
                }
            }
            Op::RegisterHelper { key, hid } => {
                for k in 1..repeat {
                    let o = self.vm.as_mut().unwrap().register_helper(*key, *hid);
                    if !o.is_ok() {
                        return Err(self.c10("history-dependent-panic-or-crash/register_helper".into(), at, format!("the {}th identical register_helper in a row -> {}", k, o.short())));
                    }
                }
                let o = self.vm.as_mut().unwrap().register_helper(*key, *hid);
                self.log.byte(o.code());
                self.t(|| format!("[{}] register_helper({:#x}, {}) -> {}", at, key, H_NAMES[*hid as usize], o.short()));
                if !o.is_ok() {
                    return Err(self.c10("history-dependent-panic-or-crash/register_helper".into(), at, format!("register_helper -> {}", o.short())));
                }
                let mm = self.model.as_mut().unwrap();
                let replaced = mm.helpers.insert(*key, *hid);
                if let Some(old) = replaced {
                    if old != *hid && (mm.jit.is_some() || mm.cl.is_some()) {
                        self.counters.inc("helper_replaced_after_compile");
                    }
                }
                self.changed_since_exec = true;
                self.note_state(op, 0);
                Ok(())
            }
            Op::SetCalc { cid } => {
                let o = self.vm.as_mut().unwrap().set_calc(*cid);
                self.log.byte(o.code());
                self.t(|| format!("[{}] set_stack_usage_calculator(calc#{}) -> {}", at, cid, o.short()));
                if !o.is_ok() {
                    return Err(self.c10("history-dependent-panic-or-crash/set_stack_usage_calculator".into(), at, format!("set_stack_usage_calculator -> {}", o.short())));
                }
                let mm = self.model.as_mut().unwrap();
                mm.calc = Some(*cid);
                if mm.prog.is_some() {
                    self.counters.inc("set_calc_with_program_loaded");
                }
                self.changed_since_exec = true;
                self.note_state(op, 0);
                Ok(())
            }
            Op::JitCompile | Op::ClCompile => {
                let engine = if *op == Op::JitCompile { Engine::Jit } else { Engine::Cl };
                let opname: &'static str = op.kind_name();
                let m = self.model.clone().unwrap();
                let inject = alloc_fail && engine == Engine::Jit && m.prog.is_some();
                let inject_mp = mprotect_fail && engine == Engine::Jit && m.prog.is_some();
                // what does a fresh VM say about compiling this (program, helper table)?
                let fresh_outcome = match m.prog {
                    None => None,
                    Some(p) => {
                        let offsets = self.sc.progs[p].offsets.unwrap_or(m.offsets);
                        let (vm, co) = self.fresh_vm(p, &m.helpers, m.calc, offsets, engine)?;
                        drop(vm);
                        Some(co)
                    }
                };
                if let Some(Outcome::Signal(s)) = fresh_outcome {
                    return Err(Stop::Abort(format!("fresh VM: {} died with signal {}", opname, s)));
                }
                let predicted_fail = m.prog.is_none() || inject || inject_mp || fresh_outcome.as_ref().map(|o| !o.is_ok()).unwrap_or(false);
                if predicted_fail {
                    self.sweep(at, Some(""))?;
                }
                tls(|t| t.verifier_log.clear());
                guard::mark_phase(guard::PHASE_SUT);
                let fired_before = guard::PAGE_ALLOC_FAIL_FIRED.load(std::sync::atomic::Ordering::Relaxed);
                if inject {
                    guard::arm_page_alloc_fail();
                }
                let mp_fired_before = guard::MPROTECT_FAIL_FIRED.load(std::sync::atomic::Ordering::Relaxed);
                if inject_mp {
                    guard::arm_mprotect_fail();
                }
                let o = match engine {
                    Engine::Jit => self.vm.as_mut().unwrap().jit_compile(),
                    _ => self.vm.as_mut().unwrap().cl_compile(),
                };
                guard::disarm_page_alloc_fail();
                guard::disarm_mprotect_fail();
                let fired = guard::PAGE_ALLOC_FAIL_FIRED.load(std::sync::atomic::Ordering::Relaxed) - fired_before;
                self.counters.add("fault_jit_page_alloc_fail_fired", fired);
                let mp_fired = guard::MPROTECT_FAIL_FIRED.load(std::sync::atomic::Ordering::Relaxed) - mp_fired_before;
                self.counters.add("fault_jit_mprotect_fail_fired", mp_fired);
                self.log.byte(o.code());
                self.t(|| format!("[{}] {}() -> {}   [fresh VM: {}{}]", at, opname, o.short(), fresh_outcome.as_ref().map(|f| f.short()).unwrap_or("n/a (no program)".into()), if inject { ", allocation failure injected" } else if inject_mp { ", mprotect failure injected" } else { "" }));
                if m.prog.is_none() {
                    if !o.is_err() {
                        return Err(self.c10(format!("no-program-not-error/{}", opname), at, format!("{} with no program loaded returned {}", opname, o.short())));
                    }
                    self.note_state(op, 1);
                    return Ok(());
                }
                let fo = fresh_outcome.unwrap();
                if inject && fired > 0 && !o.is_err() && !o.is_ok() {
                    return Err(self.c10(format!("history-dependent-panic-or-crash/{}", opname), at, format!("the code-page allocation failed and {} -> {}", opname, o.short())));
                }
                if inject && fired > 0 && o.is_err() {
                    // (an implementation that retries the allocation and succeeds is as good: then the
                    // call is judged like any successful compile below)
                    self.counters.inc("jit_compile_failed_by_fault");
                    self.mark_compiled_uncertain(engine);
                    self.note_state(op, 1);
                    self.last_fail_then_exec = true;
                    return self.sweep(at, Some(opname));
                }
                // The code pages could not be made executable. An error is fine (judged like the failed
                // allocation above); so is Ok - if the code then runs: the compile is recorded as
                // successful and the executions that follow are compared with the fresh VM as always.
                if inject_mp && mp_fired > 0 && !o.is_err() && !o.is_ok() {
                    return Err(self.c10(format!("history-dependent-panic-or-crash/{}", opname), at, format!("mprotect(PROT_EXEC) failed and {} -> {}", opname, o.short())));
                }
                if inject_mp && mp_fired > 0 && o.is_err() {
                    self.counters.inc("jit_compile_failed_by_mprotect_fault");
                    self.mark_compiled_uncertain(engine);
                    self.note_state(op, 1);
                    self.last_fail_then_exec = true;
                    return self.sweep(at, Some(opname));
                }
                if inject_mp && mp_fired > 0 && o.is_ok() {
                    self.counters.inc("jit_compile_ok_although_mprotect_failed");
                }
                if !o.same_class(&fo) {
                    if matches!(o, Outcome::Signal(_) | Outcome::Panic(_)) {
                        return Err(self.c10(format!("history-dependent-panic-or-crash/{}", opname), at, format!("{} -> {} where a fresh VM with the same program and helpers gives {}", opname, o.short(), fo.short())));
                    }
                    return Err(self.c10(format!("history-dependent-result/{}", opname), at, format!("{} -> {} where a fresh VM with the same program and helpers gives {}", opname, o.short(), fo.short())));
                }
                if o.is_ok() {
                    let mm = self.model.as_mut().unwrap();
                    let c = Some(Compiled { pid: m.prog.unwrap(), helpers: m.helpers.clone(), current: true });
                    if engine == Engine::Jit {
                        mm.jit = c;
                    } else {
                        mm.cl = c;
                    }
                    self.saw_compile_ok = true;
                    self.changed_since_exec = true;
                    self.note_state(op, 0);
                    Ok(())
                } else {
                    self.counters.inc(if engine == Engine::Jit { "jit_compile_refused" } else { "cranelift_compile_refused" });
                    self.mark_compiled_uncertain(engine);
                    self.note_state(op, o.code());
                    if o.is_err() {
                        self.last_fail_then_exec = true;
                        self.sweep(at, Some(opname))
                    } else {
                        // both the fresh and the history VM panic in the compiler: not a C10 matter,
                        // but the VM may be half-updated by the unwinding; start over.
                        Err(Stop::Abort(format!("{} panics on both the fresh and the history VM", opname)))
                    }
                }
            }
            Op::Exec { engine, pkt, mb } => {
                self.t(|| format!("[{}] {}(pkt#{} len {}, mb#{})", at, op.kind_name(), pkt, if self.sc.kind.has_packet() { self.sc.packets[*pkt].len() } else { 0 }, mb));
                if self.changed_since_exec {
                    self.saw_exec_after_change = true;
                    self.changed_since_exec = false;
                }
                if self.last_fail_then_exec {
                    self.counters.inc(match engine {
                        Engine::Interp => "exec_interp_after_failed_call",
                        Engine::Jit => "exec_jit_after_failed_call",
                        Engine::Cl => "exec_cranelift_after_failed_call",
                    });
                    self.last_fail_then_exec = false;
                }
                if let Some(lp) = self.last_pkt {
                    if self.sc.kind.has_packet() && self.sc.packets[lp].len() != self.sc.packets[*pkt].len() {
                        self.counters.inc("packet_length_changed_between_executions");
                    }
                }
                if self.sc.kind.has_packet() && self.sc.packets[*pkt].is_empty() {
                    self.counters.inc("exec_on_empty_packet");
                }
                self.last_pkt = Some(*pkt);
                self.counters.inc(match engine {
                    Engine::Interp => "exec_interp",
                    Engine::Jit => "exec_jit",
                    Engine::Cl => "exec_cranelift",
                });
                let r = self.checked_exec(*engine, *pkt, *mb, at, None);
                self.note_state(op, if r.is_ok() { 0 } else { 1 });
                r
            }
        }
    }

    pub fn run(mut self) -> RunResult {
        let mut violation = None;
        let mut aborted = None;
        let ops = self.sc.ops.clone();
        for (i, op) in ops.iter().enumerate() {
            match self.do_op(i, op) {
                Ok(()) => {}
                Err(Stop::Violation(v)) => {
                    violation = Some(v);
                    break;
                }
                Err(Stop::Abort(why)) => {
                    self.t(|| format!("run aborted: {}", why));
                    aborted = Some(why);
                    break;
                }
            }
        }
        if violation.is_none() && aborted.is_none() {
            // final observation sweep
            match self.sweep(ops.len(), None) {
                Ok(()) => {}
                Err(Stop::Violation(v)) => violation = Some(v),
                Err(Stop::Abort(why)) => aborted = Some(why),
            }
        }
        if let Some(v) = &violation {
            let s = format!("VIOLATION {} {} at op {}: {}", v.prop.name(), v.class, v.at_op, v.detail);
            self.t(|| s);
        }
        // the VM must go before the arena it borrows from
        self.vm = None;
        let nontrivial = self.saw_load_ok && self.saw_compile_ok && self.saw_exec_after_change;
        RunResult {
            violation,
            aborted,
            log_hash: self.log.finish(),
            history_sig: self.hist.finish(),
            nontrivial,
            counters: self.counters,
            states: self.states,
            transitions: self.transitions,
            trace: self.trace,
        }
    }
}

pub fn run_scenario(sc: &Scenario, mode: Prop, want_trace: bool) -> RunResult {
    tls(|t| *t = SimTls::default());
    guard::disarm_page_alloc_fail();
    guard::disarm_mprotect_fail();
    Runner::new(sc, mode, want_trace).run()
}

pub fn scenario_to_replay(sc: &Scenario, mode: Prop, seed: u64, index: u64, res: &RunResult) -> JsonValue {
    let mut o = JsonValue::new_object();
    o["engine"] = "histsim".into();
    o["property"] = mode.name().into();
    o["verif_seed"] = simcore::ju64(seed);
    o["run_index"] = simcore::ju64(index);
    o["scenario"] = sc.to_json();
    if let Some(v) = &res.violation {
        let mut vj = JsonValue::new_object();
        vj["class"] = v.class.clone().into();
        vj["at_op"] = v.at_op.into();
        vj["detail"] = v.detail.clone().into();
        o["violation"] = vj;
    }
    o["log_hash"] = simcore::ju64(res.log_hash);
    o["trace"] = JsonValue::Array(res.trace.iter().map(|s| s.as_str().into()).collect());
    let _ = json::stringify(0);
    o
}
