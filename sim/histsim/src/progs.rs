//! Program pool: every program is memory-safe for every packet it may be given on its VM kind
//! (see `min_pkt`), terminates, and carries a unique tag folded into r0 so that *which* program
//! ran is readable from the result.

use simcore::json::{self, JsonValue};
use simcore::Rng;

#[derive(Clone, Copy, PartialEq, Eq, Debug, Hash, PartialOrd, Ord)]
pub enum Kind {
    Mbuff,
    Fixed,
    Raw,
    NoData,
}

impl Kind {
    pub fn name(self) -> &'static str {
        match self {
            Kind::Mbuff => "Mbuff",
            Kind::Fixed => "Fixed",
            Kind::Raw => "Raw",
            Kind::NoData => "NoData",
        }
    }
    pub fn parse(s: &str) -> Option<Kind> {
        Some(match s {
            "Mbuff" => Kind::Mbuff,
            "Fixed" => Kind::Fixed,
            "Raw" => Kind::Raw,
            "NoData" => Kind::NoData,
            _ => return None,
        })
    }
    pub fn has_packet(self) -> bool {
        self != Kind::NoData
    }
    pub const ALL: [Kind; 4] = [Kind::Mbuff, Kind::Fixed, Kind::Raw, Kind::NoData];
}

// Helper keys. Mixer keys never collide with local-call displacements (1..8).
pub const MIXER_KEYS: [u32; 6] = [10, 11, 12, 0xdead_beef, 0, 0xffff_ffff];
pub const KEY_PROBE_R1: u32 = 0x9001;
pub const KEY_PROBE_SLOT: u32 = 0x9002;
pub const KEY_PROBE_STACK: u32 = 0x9003;
/// a helper id no history ever registers
pub const KEY_NEVER: u32 = 0x7777;
pub const LEAK_SLOTS: [i16; 4] = [-8, -16, -264, -512];

#[derive(Clone, Copy, PartialEq, Eq, Debug, Hash)]
pub enum Class {
    Const,
    Alu,
    Helper,
    LocalCall,
    /// rejected by the default verifier (dead `mov r10, 1` after the live exit), harmless to run
    HarmlessInvalid,
    /// not safe to execute (truncated / no exit); only ever offered under a rejecting verifier
    Unsafe,
    /// `mov r0, r1` (one channel; compared with the fresh VM only)
    R1Plain,
    /// r1 through a register move *and* through a helper argument
    ProbeR1,
    /// fixed-metadata slots: r0 = *(r1+doff); helper reads both slots natively
    ProbeSlotData,
    /// r0 = *(r1+eoff) - *(r1+doff)
    ProbeSlotLen,
    /// ldabsb param0
    ProbePktAbs,
    /// ldindb r3(=param1), param0
    ProbePktInd,
    /// ldxb r0, [r1+param0]: packet byte (Raw) or metadata byte (Mbuff)
    ProbeR1Load,
    /// stdw [r10-512]; helper reads it natively; ldxdw back
    ProbeStack,
    /// stack bytes at r10-1 and r10-512 written and read back, across a local call
    StackPlain,
    /// stb [pkt+0], tag-derived byte (packet write visible to the caller)
    StorePkt,
    /// fixed-metadata slots without a helper: r0 = *(r1+eoff) - *(r1+doff)  (address-free)
    SlotPlain,
    /// stores at the bottom of its stack, calls a helper, then loads a packet byte with ldabs/ldind:
    /// the helper call must change neither the stack nor what the packet loads address
    ProbeHelperThenPkt,
    /// fixed-metadata VM: loads a byte a little beyond the end of the metadata buffer that its own
    /// (data, end) offsets imply: the interpreter must refuse it whatever the VM was configured
    /// with before. Interpreter only (contains an unreachable call to a never-registered helper).
    FixedBeyondEnd,
    /// random mix of ALU operations, stack stores and loads (only of bytes the program wrote),
    /// packet loads (ldabs / ldind / through r1), packet or metadata stores, forward branches and
    /// helper calls; memory-safe for every packet of at least `min_pkt` bytes, deterministic
    Mixed,
    /// loads a word from the address where ANOTHER program of the pool (index p0) lives in the
    /// harness's memory - no region of any VM, so the interpreter must refuse it whatever the VM
    /// has loaded before. The address is patched in when the run starts (`PEEK_PLACEHOLDER`).
    /// Interpreter only (contains an unreachable call to a never-registered helper).
    PeekOtherProgram,
    /// a long straight-line ALU program (more than a page of machine code)
    LongAlu,
    /// main -> f -> g, and g fails (out-of-bounds load): the interpreter returns an error from two
    /// frames deep. Interpreter only (contains a call to a never-registered helper).
    FailInCallee,
    /// packet bytes loaded with ldabs inside a local function and after it returned
    ProbeCallThenPkt,
    /// stores to its stack, then fails (calls a helper id that is never registered): interpreter only
    StackLeakWrite,
    /// returns stack slots it never wrote (0 on a fresh interpreter stack). Contains an unreachable
    /// call to a never-registered helper, so neither compiler accepts it: interpreter only.
    StackLeakRead,
    /// Fixed-metadata VM: stores one byte in the VM's own metadata buffer (outside the two slots),
    /// then returns - or, in the failing variant (interpreter only), runs into an out-of-bounds load.
    /// Bytes a program stored there stay until the next successful set_program.
    MetaStore,
    /// Fixed-metadata VM: returns one byte of the VM's own metadata buffer (outside the two slots):
    /// 0 unless a program stored there since the last successful set_program. One variant overwrites
    /// the byte after reading it.
    MetaRead,
    /// fills all 64 slots of the 512-byte stack, then does things an engine might need scratch
    /// memory for (a helper call that overwrites every caller-saved register, divisions, byte
    /// swaps, packet loads), then folds all 64 slots into the result: the stack is the program's alone
    StackFill,
    /// loads packet bytes with ldabs/ldind, overwrites them with a plain store through the packet
    /// pointer (r1 on a raw VM, the data slot on a fixed-metadata VM), loads them again: the second
    /// load must see what is in the packet now
    ProbePktReload,
    /// nested local calls whose depth is the low nibble of the packet's first byte: one recursive
    /// function (depth 0-15; compiled engines only, the interpreter cannot execute a backward call
    /// where overflow checks are compiled in) or a chain of ten functions (depth 0-10, forward calls
    /// only: beyond the interpreter's limit of nested calls on some packets, shallow on others)
    DeepCall,
    /// adjacent indirect packet loads: the second one is indexed by what the first one loaded (source
    /// register r0), or both use the same other source register
    ProbePktChain,
    /// an indirect packet load inside a counter loop, the index register growing by a step each time
    ProbePktLoop,
    /// Two programs that are views of ONE buffer: ViewShort is the first ten instructions of
    /// ViewLong, same start address, other length. Both are valid (ViewShort ends in a jump); they
    /// differ for packets whose first byte is 5 (ViewLong answers 99, ViewShort runs off its end, which
    /// the interpreter reports by panicking). An unreachable call to a never-registered helper keeps
    /// both compilers away. Raw kind only.
    ViewLong,
    ViewShort,
}

impl Class {
    pub fn name(self) -> &'static str {
        match self {
            Class::Const => "Const",
            Class::Alu => "Alu",
            Class::Helper => "Helper",
            Class::LocalCall => "LocalCall",
            Class::HarmlessInvalid => "HarmlessInvalid",
            Class::Unsafe => "Unsafe",
            Class::R1Plain => "R1Plain",
            Class::MetaStore => "MetaStore",
            Class::MetaRead => "MetaRead",
            Class::StackFill => "StackFill",
            Class::ProbePktReload => "ProbePktReload",
            Class::DeepCall => "DeepCall",
            Class::ProbePktChain => "ProbePktChain",
            Class::ProbePktLoop => "ProbePktLoop",
            Class::ViewLong => "ViewLong",
            Class::ViewShort => "ViewShort",
            Class::ProbeR1 => "ProbeR1",
            Class::ProbeSlotData => "ProbeSlotData",
            Class::ProbeSlotLen => "ProbeSlotLen",
            Class::ProbePktAbs => "ProbePktAbs",
            Class::ProbePktInd => "ProbePktInd",
            Class::ProbeR1Load => "ProbeR1Load",
            Class::ProbeStack => "ProbeStack",
            Class::StackPlain => "StackPlain",
            Class::StorePkt => "StorePkt",
            Class::SlotPlain => "SlotPlain",
            Class::ProbeHelperThenPkt => "ProbeHelperThenPkt",
            Class::FixedBeyondEnd => "FixedBeyondEnd",
            Class::PeekOtherProgram => "PeekOtherProgram",
            Class::Mixed => "Mixed",
            Class::LongAlu => "LongAlu",
            Class::FailInCallee => "FailInCallee",
            Class::ProbeCallThenPkt => "ProbeCallThenPkt",
            Class::StackLeakWrite => "StackLeakWrite",
            Class::StackLeakRead => "StackLeakRead",
        }
    }
    pub fn parse(s: &str) -> Option<Class> {
        for c in [
            Class::Const,
            Class::Alu,
            Class::Helper,
            Class::LocalCall,
            Class::HarmlessInvalid,
            Class::Unsafe,
            Class::R1Plain,
            Class::ProbeR1,
            Class::ProbeSlotData,
            Class::ProbeSlotLen,
            Class::ProbePktAbs,
            Class::ProbePktInd,
            Class::ProbeR1Load,
            Class::ProbeStack,
            Class::StackPlain,
            Class::StorePkt,
            Class::SlotPlain,
            Class::StackLeakWrite,
            Class::StackLeakRead,
            Class::ProbeHelperThenPkt,
            Class::FixedBeyondEnd,
            Class::PeekOtherProgram,
            Class::Mixed,
            Class::LongAlu,
            Class::FailInCallee,
            Class::ProbeCallThenPkt,
            Class::MetaStore,
            Class::MetaRead,
            Class::StackFill,
            Class::ProbePktReload,
            Class::DeepCall,
            Class::ProbePktChain,
            Class::ProbePktLoop,
            Class::ViewLong,
            Class::ViewShort,
        ] {
            if c.name() == s {
                return Some(c);
            }
        }
        None
    }
    pub fn is_probe(self) -> bool {
        matches!(
            self,
            Class::ProbeR1
                | Class::ProbeSlotData
                | Class::ProbeSlotLen
                | Class::ProbePktAbs
                | Class::ProbePktInd
                | Class::ProbeR1Load
                | Class::ProbeStack
                | Class::StackPlain
                | Class::R1Plain
        )
    }
}

#[derive(Clone, Debug)]
pub struct Prog {
    pub bytes: Vec<u8>,
    pub tag: u8,
    pub class: Class,
    /// shortest packet this program may be executed on
    pub min_pkt: usize,
    /// longest... not needed: programs only read below min_pkt
    /// for fixed-slot probes: the (data, end) offsets baked into the program
    pub offsets: Option<(usize, usize)>,
    pub p0: i64,
    pub p1: i64,
    pub local_call: bool,
    /// needs a non-empty metadata buffer (Mbuff kind) of at least this many bytes
    pub min_mbuff: usize,
    /// access width of packet probes (1, 2, 4 or 8 bytes)
    pub w: u8,
    /// this program is handed to the VM as the first `bytes.len()` bytes of that pool program's buffer
    pub view_of: Option<usize>,
}

impl Prog {
    pub fn safe(&self) -> bool {
        self.class != Class::Unsafe
    }
    pub fn to_json(&self) -> JsonValue {
        let mut o = JsonValue::new_object();
        o["bytes"] = simcore::hex(&self.bytes).into();
        o["tag"] = (self.tag as u32).into();
        o["class"] = self.class.name().into();
        o["min_pkt"] = self.min_pkt.into();
        o["min_mbuff"] = self.min_mbuff.into();
        if let Some((d, e)) = self.offsets {
            o["offsets"] = json::array![d, e];
        }
        o["p0"] = self.p0.into();
        o["p1"] = self.p1.into();
        o["local_call"] = self.local_call.into();
        o["w"] = self.w.into();
        if let Some(v) = self.view_of {
            o["view_of"] = v.into();
        }
        o["asm"] = disasm(&self.bytes).into();
        o
    }
    pub fn from_json(v: &JsonValue) -> Option<Prog> {
        Some(Prog {
            bytes: simcore::unhex(v["bytes"].as_str()?)?,
            tag: v["tag"].as_u8()?,
            class: Class::parse(v["class"].as_str()?)?,
            min_pkt: v["min_pkt"].as_usize()?,
            min_mbuff: v["min_mbuff"].as_usize().unwrap_or(0),
            offsets: if v["offsets"].is_array() {
                Some((v["offsets"][0].as_usize()?, v["offsets"][1].as_usize()?))
            } else {
                None
            },
            p0: v["p0"].as_i64()?,
            p1: v["p1"].as_i64()?,
            local_call: v["local_call"].as_bool()?,
            w: v["w"].as_u8().unwrap_or(1),
            view_of: v["view_of"].as_usize(),
        })
    }
}

/// Human-readable rendering for replay files (informational; uses rbpf's disassembler only on
/// well-formed programs, and never fails the harness if it panics).
pub fn disasm(bytes: &[u8]) -> String {
    if bytes.len() % 8 != 0 || bytes.is_empty() {
        return format!("<{} bytes, not whole instructions>", bytes.len());
    }
    let b = bytes.to_vec();
    match std::panic::catch_unwind(move || {
        rbpf::disassembler::to_insn_vec(&b)
            .iter()
            .map(|i| i.desc.clone())
            .collect::<Vec<_>>()
            .join("; ")
    }) {
        Ok(s) => s,
        Err(_) => "<not disassemblable>".to_string(),
    }
}

// ---- encoding -------------------------------------------------------------------------------

pub fn ins(opc: u8, dst: u8, src: u8, off: i16, imm: i32) -> [u8; 8] {
    let o = off.to_le_bytes();
    let i = imm.to_le_bytes();
    [opc, (src << 4) | (dst & 0xf), o[0], o[1], i[0], i[1], i[2], i[3]]
}

pub const MOV64_IMM: u8 = 0xb7;
pub const MOV64_REG: u8 = 0xbf;
pub const MOV32_REG: u8 = 0xbc;
pub const ADD64_IMM: u8 = 0x07;
pub const SUB64_REG: u8 = 0x1f;
pub const LSH64_IMM: u8 = 0x67;
pub const OR64_IMM: u8 = 0x47;
pub const OR64_REG: u8 = 0x4f;
pub const LDXB: u8 = 0x71;
pub const LDXDW: u8 = 0x79;
pub const STB_IMM: u8 = 0x72;
pub const STDW_IMM: u8 = 0x7a;
pub const LD_ABS_B: u8 = 0x30;
pub const LD_IND_B: u8 = 0x50;
pub const LD_DW_IMM: u8 = 0x18;
pub const CALL: u8 = 0x85;
pub const EXIT: u8 = 0x95;

struct B {
    v: Vec<u8>,
}
impl B {
    fn new(tag: u8) -> B {
        let mut b = B { v: Vec::new() };
        // header: the tag lives in byte 4 of every program (custom verifiers key on it)
        b.i(MOV64_IMM, 9, 0, 0, tag as i32);
        b
    }
    fn i(&mut self, opc: u8, dst: u8, src: u8, off: i16, imm: i32) {
        self.v.extend_from_slice(&ins(opc, dst, src, off, imm));
    }
    fn len(&self) -> usize {
        self.v.len() / 8
    }
    /// common trailer: r0 = (r0 << 8) | tag; exit
    fn trailer(&mut self, tag: u8) {
        self.i(LSH64_IMM, 0, 0, 0, 8);
        self.i(OR64_IMM, 0, 0, 0, tag as i32);
        self.i(EXIT, 0, 0, 0, 0);
    }
}

fn mk(bytes: Vec<u8>, tag: u8, class: Class) -> Prog {
    Prog { bytes, tag, class, min_pkt: 0, offsets: None, p0: 0, p1: 0, local_call: false, min_mbuff: 0, w: 1, view_of: None }
}

pub fn gen_const(rng: &mut Rng, tag: u8) -> Prog {
    let mut b = B::new(tag);
    let k = rng.below(1 << 20) as i32;
    b.i(MOV64_IMM, 0, 0, 0, k);
    b.trailer(tag);
    let mut p = mk(b.v, tag, Class::Const);
    p.p0 = k as i64;
    p
}

/// Straight-line ALU program with optional forward skips; address-free, terminates.
pub fn gen_alu(rng: &mut Rng, tag: u8) -> Prog {
    let n = rng.range(2, 14);
    gen_alu_n(rng, tag, n)
}

pub fn gen_fixed_beyond_end(tag: u8, doff: usize, eoff: usize, beyond: usize) -> Prog {
    let mut b = B::new(tag);
    let at = doff.max(eoff) + 8 + beyond;
    b.i(MOV64_REG, 8, 1, 0, 0);
    b.i(ADD64_IMM, 8, 0, 0, at as i32);
    b.i(LDXB, 0, 8, 0, 0);
    b.i(0x05, 0, 0, 1, 0); // ja +1
    b.i(CALL, 0, 0, 0, KEY_NEVER as i32); // unreachable; keeps both compilers away
    b.trailer(tag);
    let mut p = mk(b.v, tag, Class::FixedBeyondEnd);
    p.offsets = Some((doff, eoff));
    p.p0 = at as i64;
    p
}

/// Expected result: fold (h = h * 31 + slot) over the 64 slots, lowest address first, then the trailer.
pub fn gen_stack_fill(rng: &mut Rng, tag: u8, has_pkt: bool) -> Prog {
    let mut b = B::new(tag);
    let mut vals = [0i32; 64];
    // One variant asks the helper for a "salt" first (0 for an execution the harness started,
    // something else for a nested one) and adds it to every slot value: when the helper later runs
    // this very program again on the same VM, the nested execution writes other values than its caller.
    let with_helper = rng.chance(2, 3);
    let salted = with_helper && rng.chance(1, 3);
    if salted {
        b.i(MOV64_IMM, 1, 0, 0, 0);
        b.i(MOV64_IMM, 2, 0, 0, tag as i32);
        b.i(MOV64_IMM, 3, 0, 0, crate::vmwrap::GET_SALT as i32);
        b.i(MOV64_IMM, 4, 0, 0, 0);
        b.i(MOV64_IMM, 5, 0, 0, 0);
        b.i(CALL, 0, 0, 0, KEY_PROBE_STACK as i32);
        b.i(MOV64_REG, 9, 0, 0, 0); // r9 = salt (the tag in r9 has served its purpose: it is byte 4 of the program)
    }
    for (i, v) in vals.iter_mut().enumerate() {
        *v = rng.next_u64() as i32 | 1;
        b.i(MOV64_IMM, 2, 0, 0, *v);
        if salted {
            b.i(0x0f, 2, 9, 0, 0); // add64 r2, r9
        }
        b.i(0x7b, 10, 2, -512 + 8 * i as i16, 0); // stxdw [r10-512+8i], r2
    }
    // the middle part: nothing here may touch the 512 bytes
    b.i(MOV64_IMM, 6, 0, 0, rng.next_u64() as i32);
    b.i(MOV64_IMM, 7, 0, 0, (rng.next_u64() as i32) | 1);
    let mut min_pkt = 0;
    for _ in 0..rng.range(2, 6) {
        match rng.below(6) {
            0 => b.i(0x37, 6, 0, 0, rng.range(1, 1000) as i32), // div64 imm
            1 => b.i(0x97, 6, 0, 0, rng.range(1, 1000) as i32), // mod64 imm
            2 => b.i(0x3f, 6, 7, 0, 0),                         // div64 r6, r7 (r7 is odd: never 0)
            3 => b.i(0xdc, 6, 0, 0, *rng.pick(&[16, 32, 64])),  // be
            4 => b.i(0x34, 6, 0, 0, rng.range(1, 1000) as i32), // div32 imm
            _ => {
                if has_pkt {
                    b.i(LD_ABS_B, 0, 0, 0, 0);
                    b.i(0x0f, 6, 0, 0, 0); // add64 r6, r0
                    min_pkt = 1;
                } else {
                    b.i(0x9f, 6, 7, 0, 0); // mod64 r6, r7
                }
            }
        }
    }
    if with_helper {
        b.i(MOV64_REG, 1, 10, 0, 0);
        b.i(ADD64_IMM, 1, 0, 0, -512 + 8 * rng.below(64) as i32);
        b.i(MOV64_IMM, 2, 0, 0, tag as i32);
        // half of the time the helper runs another program (on a VM of its own) before it returns
        b.i(MOV64_IMM, 3, 0, 0, if salted { crate::vmwrap::REENTER_SAME as i32 } else if rng.chance(1, 2) { crate::vmwrap::REENTER as i32 } else { 3 });
        b.i(MOV64_IMM, 4, 0, 0, 4);
        b.i(MOV64_IMM, 5, 0, 0, 5);
        b.i(CALL, 0, 0, 0, KEY_PROBE_STACK as i32);
    }
    b.i(MOV64_IMM, 0, 0, 0, 0);
    for i in 0..64 {
        b.i(LDXDW, 2, 10, -512 + 8 * i as i16, 0);
        b.i(0x27, 0, 0, 0, 31); // mul64 r0, 31
        b.i(0x0f, 0, 2, 0, 0); // add64 r0, r2
    }
    b.trailer(tag);
    let mut h = 0u64;
    for v in vals {
        h = h.wrapping_mul(31).wrapping_add(v as i64 as u64);
    }
    let mut p = mk(b.v, tag, Class::StackFill);
    p.p0 = ((h << 8) | tag as u64) as i64;
    p.min_pkt = min_pkt;
    p
}

/// `k` is a byte of the metadata buffer outside both slots; `v` the byte stored.
pub fn gen_meta_store(tag: u8, doff: usize, eoff: usize, k: usize, v: u8, fails: bool) -> Prog {
    let mut b = B::new(tag);
    b.i(MOV64_REG, 8, 1, 0, 0);
    b.i(ADD64_IMM, 8, 0, 0, k as i32);
    b.i(STB_IMM, 8, 0, 0, v as i32);
    if fails {
        // beyond the buffer (inside the slack the harness keeps behind it, where no packet can
        // lie): the interpreter refuses the load, the execution ends in Err
        b.i(ADD64_IMM, 8, 0, 0, (doff.max(eoff) + 8 + 1000 - k) as i32);
        b.i(LDXB, 0, 8, 0, 0);
        b.i(0x05, 0, 0, 1, 0); // ja +1
        b.i(CALL, 0, 0, 0, KEY_NEVER as i32); // unreachable; keeps both compilers away
    }
    b.i(MOV64_IMM, 0, 0, 0, v as i32);
    b.trailer(tag);
    let mut p = mk(b.v, tag, Class::MetaStore);
    p.offsets = Some((doff, eoff));
    p.p0 = k as i64;
    p.p1 = v as i64 | if fails { 0x100 } else { 0 };
    p
}

/// `then_store`: after reading the byte the program overwrites it (so its own next execution
/// reads that value: the carry-over C10 allows).
pub fn gen_meta_read(tag: u8, doff: usize, eoff: usize, k: usize, then_store: Option<u8>) -> Prog {
    let mut b = B::new(tag);
    b.i(MOV64_REG, 8, 1, 0, 0);
    b.i(ADD64_IMM, 8, 0, 0, k as i32);
    b.i(LDXB, 0, 8, 0, 0);
    if let Some(v) = then_store {
        b.i(STB_IMM, 8, 0, 0, v as i32);
    }
    b.trailer(tag);
    let mut p = mk(b.v, tag, Class::MetaRead);
    p.offsets = Some((doff, eoff));
    p.p0 = k as i64;
    p.p1 = then_store.map(|v| v as i64 | 0x100).unwrap_or(0);
    p
}

/// See `Class::Mixed`. r9 keeps the context pointer (r1 at entry), r0/r6/r7/r8 are data registers
/// that never hold an address, r2-r5 are scratch.
pub fn gen_mixed(rng: &mut Rng, tag: u8, kind: Kind, p0len: usize, mbuff_len: usize) -> Prog {
    let mut b = B::new(tag);
    b.i(MOV64_REG, 9, 1, 0, 0);
    let data = [0u8, 6, 7, 8];
    for r in data {
        b.i(MOV64_IMM, r, 0, 0, rng.next_u64() as i32);
    }
    let min_pkt = if kind.has_packet() { *rng.pick(&[16usize, 24, 40]).min(&p0len) } else { 0 };
    let ctx_len = match kind {
        Kind::Raw => min_pkt,
        Kind::Mbuff => mbuff_len,
        _ => 0,
    };
    let mut written = [false; 512];
    // a quarter of these programs also call a small local function (which Cranelift refuses)
    let with_callee = rng.chance(1, 4);
    let n = rng.range(6, 40);
    let mut units: Vec<Vec<[u8; 8]>> = Vec::new();
    for _ in 0..n {
        let d = *rng.pick(&data);
        let s2 = *rng.pick(&data);
        let w = *rng.pick(&[1usize, 2, 4, 8]);
        let wi = match w {
            1 => 0x10u8,
            2 => 0x08,
            4 => 0x00,
            _ => 0x18,
        };
        let imm = match rng.below(3) {
            0 => rng.below(256) as i32,
            1 => -(rng.below(70000) as i32),
            _ => rng.next_u64() as i32,
        };
        let unit: Vec<[u8; 8]> = match rng.below(20) {
            // ---- ALU, 64- and 32-bit --------------------------------------------------------
            0..=5 => {
                let op = *rng.pick(&[0x00u8, 0x10, 0x20, 0x30, 0x40, 0x50, 0x60, 0x70, 0x90, 0xa0, 0xb0, 0xc0]);
                let cls = if rng.chance(1, 2) { 0x07u8 } else { 0x04 };
                if rng.chance(1, 2) {
                    let imm = if matches!(op, 0x60 | 0x70 | 0xc0) { rng.below(if cls == 0x07 { 64 } else { 32 }) as i32 } else { imm };
                    vec![ins(op | cls, d, 0, 0, imm)]
                } else {
                    vec![ins(op | cls | 0x08, d, s2, 0, 0)]
                }
            }
            6 => vec![ins(0x84, d, 0, 0, 0)], // neg32
            7 => vec![ins(if rng.chance(1, 2) { 0xd4 } else { 0xdc }, d, 0, 0, *rng.pick(&[16i32, 32, 64]))], // le / be
            8 => {
                let lo = rng.next_u64() as i32;
                let hi = rng.next_u64() as i32;
                vec![ins(LD_DW_IMM, d, 0, 0, lo), ins(0, 0, 0, 0, hi)]
            }
            // ---- stack ------------------------------------------------------------------------
            9..=11 => {
                let off = rng.range(0, (512 - w) as u64) as usize; // byte index from the bottom
                for k in 0..w {
                    written[off + k] = true;
                }
                let o = off as i16 - 512;
                if rng.chance(1, 2) {
                    vec![ins(0x62 | wi, 10, 0, o, imm)] // st imm
                } else {
                    vec![ins(0x63 | wi, 10, s2, o, 0)] // stx reg
                }
            }
            12 | 13 => {
                // load from the stack only what this program has written
                let cands: Vec<usize> = (0..=512 - w).filter(|o| (0..w).all(|k| written[o + k])).collect();
                if cands.is_empty() {
                    vec![ins(0xbf, d, s2, 0, 0)]
                } else {
                    let off = *rng.pick(&cands);
                    vec![ins(0x61 | wi, d, 10, off as i16 - 512, 0)]
                }
            }
            // ---- packet -----------------------------------------------------------------------
            14 if min_pkt >= 16 => {
                let idx = rng.below((min_pkt - 8) as u64 + 1) as i32;
                vec![ins(0x20 | wi, 0, 0, 0, idx)] // ldabs
            }
            15 if min_pkt >= 16 => {
                let total = rng.below((min_pkt - 8) as u64 + 1) as i32;
                let r = rng.below(total as u64 + 1) as i32;
                vec![ins(MOV64_IMM, 3, 0, 0, r), ins(0x40 | wi, 0, 3, 0, total - r)] // ldind
            }
            // ---- through the context pointer ---------------------------------------------------
            16 if ctx_len >= w => {
                let off = rng.below((ctx_len - w) as u64 + 1) as i16;
                vec![ins(0x61 | wi, d, 9, off, 0)]
            }
            17 if ctx_len >= w => {
                let off = rng.below((ctx_len - w) as u64 + 1) as i16;
                if rng.chance(1, 2) {
                    vec![ins(0x62 | wi, 9, 0, off, imm)]
                } else {
                    vec![ins(0x63 | wi, 9, s2, off, 0)]
                }
            }
            // ---- helper call ---------------------------------------------------------------------
            18 => {
                let key = *rng.pick(&MIXER_KEYS);
                let mut v = Vec::new();
                for r in 1..=5u8 {
                    if rng.chance(1, 2) {
                        v.push(ins(MOV64_IMM, r, 0, 0, rng.below(1 << 20) as i32));
                    } else {
                        v.push(ins(MOV64_REG, r, *rng.pick(&[6u8, 7, 8]), 0, 0));
                    }
                }
                v.push(ins(CALL, 0, 0, 0, key as i32));
                v
            }
            19 if with_callee => vec![ins(CALL, 0, 1, 0, 0)], // displacement patched below
            _ => vec![ins(0xbf, d, s2, 0, 0)],
        };
        units.push(unit);
    }
    let nunits = units.len();
    for (idx, u) in units.iter().enumerate() {
        if idx + 1 < nunits && rng.chance(1, 6) {
            // forward skip over this unit; stack bytes it writes may then be unwritten: only skip
            // units that do not store to the stack
            let stores_stack = u.iter().any(|i| (i[0] & 0x07 == 0x02 || i[0] & 0x07 == 0x03) && (i[1] & 0x0f) == 10);
            if !stores_stack {
                let a = *rng.pick(&data);
                let c = *rng.pick(&data);
                let opc = *rng.pick(&[0x1du8, 0x2d, 0x3d, 0x5d, 0x6d, 0x7d, 0xad, 0xbd, 0xcd, 0xdd, 0x1e, 0x5e]);
                b.v.extend_from_slice(&ins(opc, a, c, u.len() as i16, 0));
            }
        }
        for i in u {
            b.v.extend_from_slice(i);
        }
    }
    b.i(0xaf, 0, 6, 0, 0);
    b.i(0x0f, 0, 7, 0, 0);
    b.i(0xaf, 0, 8, 0, 0);
    b.trailer(tag);
    let mut has_call = false;
    if with_callee {
        // Cranelift translates every `call` as a helper call keyed by its immediate: a displacement
        // that happens to equal a registered helper key (10, 11, 12) would compile there and call the
        // helper with whatever r1-r5 hold (addresses). Unreachable padding moves the callee until no
        // call site's displacement is a helper key, so that Cranelift always refuses the program.
        loop {
            let callee_at = b.len() as i32;
            let mut clash = false;
            let mut i = 0;
            while i + 8 <= b.v.len() {
                if b.v[i] == CALL && (b.v[i + 1] >> 4) == 1 {
                    let disp = callee_at - (i as i32 / 8 + 1);
                    clash |= MIXER_KEYS.contains(&(disp as u32)) || disp as u32 == KEY_NEVER || (0x9000..0x9100).contains(&disp) || (0x100..0x160).contains(&disp);
                }
                if b.v[i] == LD_DW_IMM {
                    i += 8;
                }
                i += 8;
            }
            if !clash {
                break;
            }
            b.i(MOV64_REG, 0, 0, 0, 0);
        }
        // the callee: arithmetic on the data registers only (r6-r8 are restored on return, r0 is the result)
        let callee_at = b.len();
        b.i(0x0f, 0, 7, 0, 0); // add64 r0, r7
        b.i(0xaf, 6, 0, 0, 0); // xor64 r6, r0
        b.i(0x2f, 0, 6, 0, 0); // mul64 r0, r6
        b.i(0x07, 0, 0, 0, rng.next_u64() as i32);
        b.i(EXIT, 0, 0, 0, 0);
        let mut i = 0;
        while i + 8 <= b.v.len() {
            if b.v[i] == CALL && (b.v[i + 1] >> 4) == 1 {
                let disp = callee_at as i32 - (i as i32 / 8 + 1);
                b.v[i + 4..i + 8].copy_from_slice(&disp.to_le_bytes());
                has_call = true;
            }
            if b.v[i] == LD_DW_IMM {
                i += 8;
            }
            i += 8;
        }
    }
    let mut p = mk(b.v, tag, Class::Mixed);
    p.local_call = has_call;
    p.min_pkt = min_pkt;
    p.min_mbuff = if kind == Kind::Mbuff { mbuff_len } else { 0 };
    p
}

pub const PEEK_PLACEHOLDER: u64 = 0x0bad_c0de_0bad_c0de;

/// Byte offset of the wide-load immediate that `patch_peek` overwrites.
pub const PEEK_LDDW_AT: usize = 8;

pub fn gen_peek_other_program(tag: u8, target: usize) -> Prog {
    let mut b = B::new(tag);
    b.i(LD_DW_IMM, 2, 0, 0, PEEK_PLACEHOLDER as u32 as i32);
    b.i(0, 0, 0, 0, (PEEK_PLACEHOLDER >> 32) as u32 as i32);
    b.i(0x61, 0, 2, 4, 0); // ldxw r0, [r2+4]: the immediate of the target's first instruction
    b.i(0x05, 0, 0, 1, 0); // ja +1
    b.i(CALL, 0, 0, 0, KEY_NEVER as i32); // unreachable; keeps both compilers away
    b.trailer(tag);
    let mut p = mk(b.v, tag, Class::PeekOtherProgram);
    p.p0 = target as i64;
    p
}

/// Put `addr` into the wide load of a PeekOtherProgram program.
pub fn patch_peek(bytes: &mut [u8], addr: u64) {
    bytes[PEEK_LDDW_AT + 4..PEEK_LDDW_AT + 8].copy_from_slice(&(addr as u32).to_le_bytes());
    bytes[PEEK_LDDW_AT + 12..PEEK_LDDW_AT + 16].copy_from_slice(&((addr >> 32) as u32).to_le_bytes());
}

pub fn gen_long_alu(rng: &mut Rng, tag: u8) -> Prog {
    let n = rng.range(450, 900);
    let mut p = gen_alu_n(rng, tag, n);
    p.class = Class::LongAlu;
    p
}

/// main: call f; trailer.  f: call g; exit.  g: ldxb r0, [1] (refused); exit
pub fn gen_fail_in_callee(tag: u8) -> Prog {
    let mut b = B::new(tag);
    b.i(MOV64_IMM, 0, 0, 0, 0); // 1
    b.i(CALL, 0, 1, 0, 5); // 2 -> 2+1+5 = 8 (f)
    b.i(0x05, 0, 0, 1, 0); // 3: ja +1
    b.i(CALL, 0, 0, 0, KEY_NEVER as i32); // 4: never executed; keeps both compilers away
    b.trailer(tag); // 5,6,7
    assert_eq!(b.len(), 8);
    b.i(STDW_IMM, 10, 0, -8, 0x7171); // 8   f: uses its frame
    b.i(CALL, 0, 1, 0, 1); // 9 -> 9+1+1 = 11 (g)
    b.i(EXIT, 0, 0, 0, 0); // 10
    b.i(MOV64_IMM, 2, 0, 0, 0); // 11  g
    b.i(LDXB, 0, 2, 1, 0); // 12: address 1 lies in no region, whatever the heap layout
    b.i(EXIT, 0, 0, 0, 0); // 13
    let mut p = mk(b.v, tag, Class::FailInCallee);
    p.local_call = true;
    p
}

/// main: call f; r0 = (r6 << 8 | ldabsb j) ...   f: r6 = ldabsb i; exit      (interpreter and JIT)
pub fn gen_probe_call_then_pkt(tag: u8, i: usize, j: usize) -> Prog {
    let mut b = B::new(tag);
    b.i(MOV64_IMM, 6, 0, 0, 0); // 1
    b.i(CALL, 0, 1, 0, 7); // 2 -> 2+1+7 = 10
    b.i(MOV64_REG, 6, 0, 0, 0); // 3: r6 = what f returned
    b.i(LD_ABS_B, 0, 0, 0, j as i32); // 4
    b.i(LSH64_IMM, 6, 0, 0, 8); // 5
    b.i(OR64_REG, 0, 6, 0, 0); // 6
    b.trailer(tag); // 7,8,9
    assert_eq!(b.len(), 10);
    b.i(LD_ABS_B, 0, 0, 0, i as i32); // 10  f
    b.i(EXIT, 0, 0, 0, 0); // 11
    let mut p = mk(b.v, tag, Class::ProbeCallThenPkt);
    p.p0 = i as i64;
    p.p1 = j as i64;
    p.min_pkt = i.max(j) + 8;
    p.local_call = true;
    p
}

fn gen_alu_n(rng: &mut Rng, tag: u8, n: u64) -> Prog {
    let mut b = B::new(tag);
    let regs = [0u8, 6, 7];
    for r in regs {
        b.i(MOV64_IMM, r, 0, 0, rng.next_u64() as i32);
    }
    // units: each is a list of slots; a skip jumps over exactly the next unit
    let mut units: Vec<Vec<[u8; 8]>> = Vec::new();
    for _ in 0..n {
        let dst = *rng.pick(&regs);
        let src = *rng.pick(&regs);
        let imm = match rng.below(4) {
            0 => rng.below(64) as i32,
            1 => -(rng.below(1000) as i32),
            _ => rng.next_u64() as i32,
        };
        let unit: Vec<[u8; 8]> = match rng.below(16) {
            0 => vec![ins(0x07, dst, 0, 0, imm)],                       // add64 imm
            1 => vec![ins(0x0f, dst, src, 0, 0)],                       // add64 reg
            2 => vec![ins(0x17, dst, 0, 0, imm)],                       // sub64 imm
            3 => vec![ins(0x1f, dst, src, 0, 0)],                       // sub64 reg
            4 => vec![ins(0x27, dst, 0, 0, imm)],                       // mul64 imm
            5 => vec![ins(0x2f, dst, src, 0, 0)],                       // mul64 reg
            6 => vec![ins(0x4f, dst, src, 0, 0)],                       // or64 reg
            7 => vec![ins(0x57, dst, 0, 0, imm)],                       // and64 imm
            8 => vec![ins(0xaf, dst, src, 0, 0)],                       // xor64 reg
            9 => vec![ins(0x67, dst, 0, 0, rng.below(64) as i32)],      // lsh64 imm
            10 => vec![ins(0x77, dst, 0, 0, rng.below(64) as i32)],     // rsh64 imm
            11 => vec![ins(0x04, dst, 0, 0, imm)],                      // add32 imm
            12 => vec![ins(0x0c, dst, src, 0, 0)],                      // add32 reg
            13 => vec![ins(0xa4, dst, 0, 0, imm)],                      // xor32 imm
            14 => vec![ins(MOV64_REG, dst, src, 0, 0)],
            _ => {
                let lo = rng.next_u64() as i32;
                let hi = rng.next_u64() as i32;
                vec![ins(LD_DW_IMM, dst, 0, 0, lo), ins(0, 0, 0, 0, hi)]
            }
        };
        units.push(unit);
    }
    let nunits = units.len();
    for (idx, u) in units.iter().enumerate() {
        // occasionally a forward skip over the next unit
        if idx + 1 < nunits && rng.chance(1, 5) {
            // the jump sits right before unit `idx` and skips exactly that unit
            let skip = u.len() as i16;
            let a = *rng.pick(&regs);
            let c = *rng.pick(&regs);
            let opc = *rng.pick(&[0x1du8, 0x2d, 0x5d, 0x6d, 0xad]); // jeq/jgt/jne/jsgt/jlt reg
            b.v.extend_from_slice(&ins(opc, a, c, skip, 0));
        }
        for s in u {
            b.v.extend_from_slice(s);
        }
    }
    // fold all three registers into r0
    b.i(0xaf, 0, 6, 0, 0);
    b.i(0x0f, 0, 7, 0, 0);
    b.trailer(tag);
    mk(b.v, tag, Class::Alu)
}

pub fn gen_helper(rng: &mut Rng, tag: u8) -> Prog {
    let mut b = B::new(tag);
    let ncalls = rng.range(1, 2);
    b.i(MOV64_IMM, 6, 0, 0, 0);
    for c in 0..ncalls {
        let key = *rng.pick(&MIXER_KEYS);
        for r in 1..=5u8 {
            b.i(MOV64_IMM, r, 0, 0, (rng.below(1 << 16) as i32) + r as i32);
        }
        if c > 0 {
            b.i(MOV64_REG, 3, 6, 0, 0); // feed the previous result in
        }
        b.i(CALL, 0, 0, 0, key as i32);
        b.i(0xaf, 6, 0, 0, 0); // r6 ^= r0
    }
    b.i(MOV64_REG, 0, 6, 0, 0);
    b.trailer(tag);
    mk(b.v, tag, Class::Helper)
}

/// main: r6 = r10; call f; trailer.   f: r0 = r6 - r10 (+ nested g: adds its own distance)
pub fn gen_local_call(rng: &mut Rng, tag: u8) -> Prog {
    let nested = rng.chance(1, 2);
    let c = rng.below(200) as i32;
    let mut b = B::new(tag);
    b.i(MOV64_REG, 6, 10, 0, 0); // 1
    // main: 0 hdr, 1 mov, 2 call, 3 lsh, 4 or, 5 exit ; f starts at 6
    b.i(CALL, 0, 1, 0, 3); // 2 -> 2+1+3 = 6
    b.trailer(tag); // 3,4,5
    assert_eq!(b.len(), 6);
    if !nested {
        b.i(MOV64_REG, 0, 6, 0, 0); // 6
        b.i(SUB64_REG, 0, 10, 0, 0); // 7
        b.i(ADD64_IMM, 0, 0, 0, c); // 8
        b.i(EXIT, 0, 0, 0, 0); // 9
    } else {
        // f: r7 = r10 ; call g ; r0 += (r6 - r10) ; exit        g: r0 = (r7 - r10) * 65536 ; exit
        b.i(MOV64_REG, 7, 10, 0, 0); // 6
        b.i(CALL, 0, 1, 0, 5); // 7 -> 7+1+5 = 13
        b.i(MOV64_REG, 8, 6, 0, 0); // 8
        b.i(SUB64_REG, 8, 10, 0, 0); // 9
        b.i(0x0f, 0, 8, 0, 0); // 10 add64 r0, r8
        b.i(ADD64_IMM, 0, 0, 0, c); // 11
        b.i(EXIT, 0, 0, 0, 0); // 12
        b.i(MOV64_REG, 0, 7, 0, 0); // 13
        b.i(SUB64_REG, 0, 10, 0, 0); // 14
        b.i(LSH64_IMM, 0, 0, 0, 16); // 15
        b.i(EXIT, 0, 0, 0, 0); // 16
    }
    let mut p = mk(b.v, tag, Class::LocalCall);
    p.local_call = true;
    p
}

pub fn gen_harmless_invalid(rng: &mut Rng, tag: u8) -> Prog {
    let mut p = if rng.chance(1, 2) { gen_const(rng, tag) } else { gen_alu(rng, tag) };
    p.bytes.extend_from_slice(&ins(MOV64_IMM, 10, 0, 0, 1));
    p.bytes.extend_from_slice(&ins(EXIT, 0, 0, 0, 0));
    p.class = Class::HarmlessInvalid;
    p
}

pub fn gen_unsafe(rng: &mut Rng, tag: u8) -> Prog {
    let mut p = gen_const(rng, tag);
    match rng.below(4) {
        3 => p.bytes.clear(), // the empty program
        0 => {
            let l = p.bytes.len();
            p.bytes.truncate(l - 4); // not a whole number of instructions
        }
        1 => {
            let l = p.bytes.len();
            p.bytes.truncate(l - 8); // no exit at the end
        }
        _ => {
            // jump out of the program
            let l = p.bytes.len();
            p.bytes.truncate(l - 8);
            p.bytes.extend_from_slice(&ins(0x05, 0, 0, 100, 0));
            p.bytes.extend_from_slice(&ins(EXIT, 0, 0, 0, 0));
        }
    }
    p.class = Class::Unsafe;
    p
}

pub fn gen_r1_plain(tag: u8) -> Prog {
    let mut b = B::new(tag);
    b.i(MOV64_REG, 0, 1, 0, 0);
    b.i(EXIT, 0, 0, 0, 0);
    mk(b.v, tag, Class::R1Plain)
}

pub fn gen_probe_r1(tag: u8) -> Prog {
    let mut b = B::new(tag);
    b.i(MOV64_REG, 6, 1, 0, 0);
    b.i(MOV64_IMM, 2, 0, 0, tag as i32);
    b.i(MOV64_IMM, 3, 0, 0, 0);
    b.i(MOV64_IMM, 4, 0, 0, 0);
    b.i(MOV64_IMM, 5, 0, 0, 0);
    b.i(CALL, 0, 0, 0, KEY_PROBE_R1 as i32);
    b.i(MOV64_REG, 0, 6, 0, 0);
    b.i(EXIT, 0, 0, 0, 0);
    mk(b.v, tag, Class::ProbeR1)
}

/// `ldxdw dst, [base_reg + off]` for any offset: offsets beyond the 16-bit displacement are
/// reached through a scratch register (r8 = base + off; ldxdw dst, [r8+0]).
fn load_slot(b: &mut B, dst: u8, base_reg: u8, off: usize) {
    if off <= 32000 {
        b.i(LDXDW, dst, base_reg, off as i16, 0);
    } else {
        b.i(MOV64_REG, 8, base_reg, 0, 0);
        b.i(ADD64_IMM, 8, 0, 0, off as i32);
        b.i(LDXDW, dst, 8, 0, 0);
    }
}

pub fn gen_probe_slot(tag: u8, doff: usize, eoff: usize, len_variant: bool) -> Prog {
    let mut b = B::new(tag);
    b.i(MOV64_REG, 6, 1, 0, 0);
    b.i(MOV64_IMM, 2, 0, 0, doff as i32);
    b.i(MOV64_IMM, 3, 0, 0, eoff as i32);
    b.i(MOV64_IMM, 4, 0, 0, tag as i32);
    b.i(MOV64_IMM, 5, 0, 0, 0);
    b.i(CALL, 0, 0, 0, KEY_PROBE_SLOT as i32);
    if !len_variant {
        load_slot(&mut b, 0, 6, doff);
    } else {
        load_slot(&mut b, 0, 6, eoff);
        load_slot(&mut b, 2, 6, doff);
        b.i(SUB64_REG, 0, 2, 0, 0);
    }
    b.i(EXIT, 0, 0, 0, 0);
    let mut p = mk(b.v, tag, if len_variant { Class::ProbeSlotLen } else { Class::ProbeSlotData });
    p.offsets = Some((doff, eoff));
    p
}

pub fn gen_probe_helper_then_pkt(rng: &mut Rng, tag: u8, idx: usize, ind: bool) -> Prog {
    let imm = (rng.next_u64() as i32) | 0x0101;
    let mut b = B::new(tag);
    b.i(STDW_IMM, 10, 0, -512, imm);
    b.i(STDW_IMM, 10, 0, -8, imm);
    b.i(MOV64_REG, 1, 10, 0, 0);
    b.i(ADD64_IMM, 1, 0, 0, -512);
    b.i(MOV64_IMM, 2, 0, 0, tag as i32);
    b.i(MOV64_IMM, 3, 0, 0, 0);
    b.i(MOV64_IMM, 4, 0, 0, 0);
    b.i(MOV64_IMM, 5, 0, 0, 0);
    b.i(CALL, 0, 0, 0, KEY_PROBE_STACK as i32);
    if ind {
        b.i(MOV64_IMM, 7, 0, 0, (idx / 2) as i32);
        b.i(LD_IND_B, 0, 7, 0, (idx - idx / 2) as i32);
    } else {
        b.i(LD_ABS_B, 0, 0, 0, idx as i32);
    }
    // the stack slot must still hold what the program stored
    b.i(LDXDW, 6, 10, -512, 0);
    b.i(LSH64_IMM, 0, 0, 0, 32);
    b.i(0x67, 6, 0, 0, 32); // lsh64 r6, 32
    b.i(0x77, 6, 0, 0, 32); // rsh64 r6, 32
    b.i(OR64_REG, 0, 6, 0, 0);
    b.trailer(tag);
    let mut p = mk(b.v, tag, Class::ProbeHelperThenPkt);
    p.p0 = idx as i64;
    p.p1 = imm as u32 as i64;
    p.min_pkt = idx + 8;
    p
}

pub fn gen_stack_leak_write(rng: &mut Rng, tag: u8) -> Prog {
    let mut b = B::new(tag);
    for off in LEAK_SLOTS {
        b.i(STDW_IMM, 10, 0, off, (rng.next_u64() as i32) | 0x0101);
    }
    b.i(CALL, 0, 0, 0, KEY_NEVER as i32); // the interpreter reports "unknown helper"
    b.trailer(tag);
    mk(b.v, tag, Class::StackLeakWrite)
}

pub fn gen_stack_leak_read(tag: u8) -> Prog {
    let mut b = B::new(tag);
    b.i(MOV64_IMM, 0, 0, 0, 0);
    for off in LEAK_SLOTS {
        b.i(LDXDW, 2, 10, off, 0);
        b.i(0x4f, 0, 2, 0, 0); // or64 r0, r2
    }
    b.i(0x05, 0, 0, 1, 0); // ja +1: the call below is never executed ...
    b.i(CALL, 0, 0, 0, KEY_NEVER as i32); // ... but makes both compilers refuse the program
    b.trailer(tag);
    mk(b.v, tag, Class::StackLeakRead)
}

pub fn gen_slot_plain(tag: u8, doff: usize, eoff: usize) -> Prog {
    let mut b = B::new(tag);
    load_slot(&mut b, 0, 1, eoff);
    load_slot(&mut b, 2, 1, doff);
    b.i(SUB64_REG, 0, 2, 0, 0);
    b.trailer(tag);
    let mut p = mk(b.v, tag, Class::SlotPlain);
    p.offsets = Some((doff, eoff));
    p
}

fn ld_opcode(base: u8, w: u8) -> u8 {
    // BPF_LD | size | mode: size W=0x00, H=0x08, B=0x10, DW=0x18
    base & 0xe7
        | match w {
            1 => 0x10,
            2 => 0x08,
            4 => 0x00,
            _ => 0x18,
        }
}

/// r0 = number of nested calls made = pkt[0] & 15 (then the trailer).
pub fn gen_deep_call(tag: u8) -> Prog {
    let mut b = B::new(tag);
    b.i(LD_ABS_B, 0, 0, 0, 0); // 1
    b.i(MOV64_REG, 6, 0, 0, 0); // 2
    b.i(0x57, 6, 0, 0, 0x0f); // 3: and64 r6, 15
    b.i(CALL, 0, 1, 0, 4); // 4 -> 4+1+4 = 9 (f)
    b.trailer(tag); // 5, 6, 7
    b.i(EXIT, 0, 0, 0, 0); // 8 (never reached)
    assert_eq!(b.len(), 9);
    b.i(0x55, 6, 0, 2, 0); // 9:  f: jne r6, 0, +2
    b.i(MOV64_IMM, 0, 0, 0, 0); // 10
    b.i(EXIT, 0, 0, 0, 0); // 11
    b.i(0x17, 6, 0, 0, 1); // 12: sub64 r6, 1
    b.i(CALL, 0, 1, 0, -5); // 13 -> 13+1-5 = 9
    b.i(ADD64_IMM, 0, 0, 0, 1); // 14
    b.i(EXIT, 0, 0, 0, 0); // 15
    let mut p = mk(b.v, tag, Class::DeepCall);
    p.min_pkt = 8;
    p.local_call = true;
    p
}

/// The same without a backward call (which the interpreter cannot execute where overflow checks are
/// compiled in): ten distinct functions, f1 calls f2 ... calls f10, each returning early once the
/// packet's counter is used up. Depth 0-10: beyond the interpreter's limit of nested calls on some
/// packets. r0 = number of calls made (then the trailer).
pub fn gen_deep_call_chain(tag: u8) -> Prog {
    let mut b = B::new(tag);
    b.i(LD_ABS_B, 0, 0, 0, 0); // 1
    b.i(MOV64_REG, 6, 0, 0, 0); // 2
    b.i(0x57, 6, 0, 0, 0x0f); // 3: and64 r6, 15
    b.i(CALL, 0, 1, 0, 4); // 4 -> 9 (f1)
    b.trailer(tag); // 5, 6, 7
    b.i(EXIT, 0, 0, 0, 0); // 8
    assert_eq!(b.len(), 9);
    for k in 0..10 {
        // f: jne r6, 0, +2 ; mov r0, 0 ; exit ; sub r6, 1 ; call next ; add r0, 1 ; exit
        b.i(0x55, 6, 0, 2, 0);
        b.i(MOV64_IMM, 0, 0, 0, 0);
        b.i(EXIT, 0, 0, 0, 0);
        b.i(0x17, 6, 0, 0, 1);
        if k < 9 {
            b.i(CALL, 0, 1, 0, 2); // the next function starts two instructions further on
        } else {
            b.i(MOV64_IMM, 0, 0, 0, 0); // the last one calls nobody
        }
        b.i(ADD64_IMM, 0, 0, 0, 1);
        b.i(EXIT, 0, 0, 0, 0);
    }
    let mut p = mk(b.v, tag, Class::DeepCall);
    p.min_pkt = 8;
    p.local_call = true;
    p.p1 = 1;
    p
}

/// `via_r0`: r0 = i0; ldindb r0, imm1; ldindb r0, imm2 [; ldindb r0, imm3]  - each load indexed by the
/// byte the previous one returned. Otherwise: rS = i0; ldindb rS, imm1; ldindb rS, imm2 (same source
/// register twice, the second load's result counts). Needs a packet of 256 + max(imm) + 8 bytes.
pub fn gen_probe_pkt_chain(tag: u8, i0: usize, imms: &[usize], via_r0: bool, src: u8) -> Prog {
    let mut b = B::new(tag);
    let s = if via_r0 { 0 } else { src };
    b.i(MOV64_IMM, 0, 0, 0, -1);
    b.i(MOV64_IMM, s, 0, 0, i0 as i32);
    for imm in imms {
        b.i(LD_IND_B, 0, s, 0, *imm as i32);
    }
    b.trailer(tag);
    let mut p = mk(b.v, tag, Class::ProbePktChain);
    p.p0 = i0 as i64;
    p.p1 = (imms.len() as i64) | if via_r0 { 0x100 } else { 0 };
    p.w = 1;
    p.min_pkt = 256 + i0 + imms.iter().copied().max().unwrap_or(0) + 8;
    p
}

/// r6 = 0; r7 = start; r8 = count; L: ldind{w} r7, imm; r6 = r6 * 31 + r0; r7 += step; r8 -= 1;
/// jne r8, 0, L; r0 = r6 & 0xffffff. `p0` = start, `p1` = count | step << 8 | imm << 24.
pub fn gen_probe_pkt_loop(tag: u8, start: usize, count: usize, step: usize, imm: usize, w: u8) -> Prog {
    let mut b = B::new(tag);
    b.i(MOV64_IMM, 6, 0, 0, 0);
    b.i(MOV64_IMM, 7, 0, 0, start as i32);
    b.i(MOV64_IMM, 8, 0, 0, count as i32);
    b.i(MOV64_IMM, 0, 0, 0, -1); // L
    b.i(ld_opcode(LD_IND_B, w), 0, 7, 0, imm as i32);
    b.i(0x27, 6, 0, 0, 31); // mul64 r6, 31
    b.i(0x0f, 6, 0, 0, 0); // add64 r6, r0
    b.i(ADD64_IMM, 7, 0, 0, step as i32);
    b.i(0x17, 8, 0, 0, 1); // sub64 r8, 1
    b.i(0x55, 8, 0, -7, 0); // jne r8, 0, L
    b.i(MOV64_REG, 0, 6, 0, 0);
    b.i(0x57, 0, 0, 0, 0xff_ffff); // and64 r0, 0xffffff
    b.trailer(tag);
    let mut p = mk(b.v, tag, Class::ProbePktLoop);
    p.p0 = start as i64;
    p.p1 = (count | step << 8 | imm << 24) as i64;
    p.w = w;
    p.min_pkt = start + (count - 1) * step + imm + 8;
    p
}

/// The immediates of a ProbePktChain program, read back from its bytes.
pub fn chain_imms(p: &Prog) -> Vec<usize> {
    let n = (p.p1 & 0xff) as usize;
    (0..n).map(|k| {
        let at = (3 + k) * 8 + 4;
        u32::from_le_bytes([p.bytes[at], p.bytes[at + 1], p.bytes[at + 2], p.bytes[at + 3]]) as usize
    }).collect()
}

pub const VIEW_SHORT_INSNS: usize = 10;

pub fn gen_view_long(tag: u8) -> Prog {
    let mut b = B::new(tag); // 0
    b.i(LDXB, 2, 1, 0, 0); // 1: r2 = first packet byte
    b.i(MOV64_IMM, 0, 0, 0, 1); // 2
    b.i(0x15, 2, 0, 5, 5); // 3: jeq r2, 5, +5 -> 9
    b.i(0x05, 0, 0, 1, 0); // 4: ja +1 -> 6
    b.i(CALL, 0, 0, 0, KEY_NEVER as i32); // 5: never executed; keeps both compilers away
    b.trailer(tag); // 6, 7, 8
    b.i(0x55, 2, 0, -4, 5); // 9: jne r2, 5, -4 -> 6      (the last instruction of the short view)
    assert_eq!(b.len(), VIEW_SHORT_INSNS);
    b.i(MOV64_IMM, 0, 0, 0, 99); // 10
    b.trailer(tag); // 11, 12, 13
    let mut p = mk(b.v, tag, Class::ViewLong);
    p.min_pkt = 1;
    p
}

pub fn gen_view_short(long: &Prog, parent: usize) -> Prog {
    let mut p = mk(long.bytes[..VIEW_SHORT_INSNS * 8].to_vec(), long.tag, Class::ViewShort);
    p.min_pkt = 1;
    p.view_of = Some(parent);
    p
}

pub const RELOAD_XOR: u32 = 0x5a3c_a5c3;

/// `w` is 1, 2 or 4. Expected result: the packet's bytes at idx xor RELOAD_XOR (truncated to w).
pub fn gen_probe_pkt_reload(tag: u8, idx: usize, w: u8, ind: bool, fixed_doff: Option<usize>) -> Prog {
    let mut b = B::new(tag);
    match fixed_doff {
        Some(d) => load_slot(&mut b, 7, 1, d), // r7 = packet pointer from the data slot
        None => b.i(MOV64_REG, 7, 1, 0, 0),     // raw VM: r1 is the packet
    }
    b.i(ADD64_IMM, 7, 0, 0, idx as i32);
    let load = |b: &mut B| {
        b.i(MOV64_IMM, 0, 0, 0, -1);
        if ind {
            b.i(MOV64_IMM, 3, 0, 0, 3);
            b.i(ld_opcode(LD_IND_B, w), 0, 3, 0, idx as i32 - 3);
        } else {
            b.i(ld_opcode(LD_ABS_B, w), 0, 0, 0, idx as i32);
        }
    };
    load(&mut b);
    b.i(0xa7, 0, 0, 0, RELOAD_XOR as i32); // xor64 r0, K
    let stx = match w {
        1 => 0x73,
        2 => 0x6b,
        _ => 0x63,
    };
    b.i(stx, 7, 0, 0, 0); // stx{b,h,w} [r7], r0
    load(&mut b);
    b.trailer(tag);
    let mut p = mk(b.v, tag, Class::ProbePktReload);
    p.p0 = idx as i64;
    p.min_pkt = idx + w as usize;
    p.w = w;
    if let Some(d) = fixed_doff {
        p.p1 = d as i64;
    }
    p
}

/// ld_abs of `w` bytes at packet offset idx. (The interpreter bounds-checks 8 bytes whatever the
/// width: its answer is only judged on packets of at least idx + 8 bytes.)
pub fn gen_probe_pkt_abs(tag: u8, idx: usize, w: u8) -> Prog {
    let mut b = B::new(tag);
    b.i(MOV64_IMM, 0, 0, 0, -1); // the load must replace all of r0, not only its low bytes
    b.i(ld_opcode(LD_ABS_B, w), 0, 0, 0, idx as i32);
    b.trailer(tag);
    let mut p = mk(b.v, tag, Class::ProbePktAbs);
    p.p0 = idx as i64;
    p.min_pkt = idx + w as usize; // the load's last byte may be the packet's last byte
    p.w = w;
    p
}

/// `regval` may be negative (then `idx` is larger by as much): the address arithmetic wraps around
/// and still lands on the same packet byte.
pub fn gen_probe_pkt_ind(tag: u8, idx: usize, regval: i64, w: u8, src: u8) -> Prog {
    let mut b = B::new(tag);
    b.i(MOV64_IMM, 0, 0, 0, -1);
    b.i(MOV64_IMM, src, 0, 0, regval as i32);
    b.i(ld_opcode(LD_IND_B, w), 0, src, 0, idx as i32);
    b.trailer(tag);
    let mut p = mk(b.v, tag, Class::ProbePktInd);
    p.p0 = idx as i64;
    p.p1 = regval;
    p.min_pkt = (idx as i64 + regval) as usize + w as usize;
    p.w = w;
    p
}

/// ldxb r0, [r1 + idx] — packet byte on a Raw VM, metadata byte on an Mbuff VM.
pub fn gen_probe_r1_load(tag: u8, idx: usize, kind: Kind) -> Prog {
    assert!(idx <= i16::MAX as usize);
    let mut b = B::new(tag);
    b.i(LDXB, 0, 1, idx as i16, 0);
    b.trailer(tag);
    let mut p = mk(b.v, tag, Class::ProbeR1Load);
    p.p0 = idx as i64;
    match kind {
        Kind::Raw => p.min_pkt = idx + 1,
        Kind::Mbuff => p.min_mbuff = idx + 1,
        _ => unreachable!(),
    }
    p
}

pub fn gen_probe_stack(rng: &mut Rng, tag: u8) -> Prog {
    let imm = (rng.next_u64() as i32) | 1;
    let mut b = B::new(tag);
    b.i(STDW_IMM, 10, 0, -512, imm);
    b.i(STDW_IMM, 10, 0, -8, imm ^ 0x55); // the highest eight bytes of the window
    b.i(STB_IMM, 10, 0, -1, 0x5a);
    b.i(0x62, 10, 0, -508, imm >> 8); // stw: a 4-byte access straddling nothing, inside the lowest 8
    b.i(STDW_IMM, 10, 0, -512, imm);
    b.i(MOV64_REG, 1, 10, 0, 0);
    b.i(ADD64_IMM, 1, 0, 0, -512);
    b.i(MOV64_IMM, 2, 0, 0, tag as i32);
    b.i(MOV64_IMM, 3, 0, 0, 0);
    b.i(MOV64_IMM, 4, 0, 0, 0);
    b.i(MOV64_IMM, 5, 0, 0, 0);
    b.i(CALL, 0, 0, 0, KEY_PROBE_STACK as i32);
    b.i(LDXDW, 0, 10, -512, 0);
    b.i(EXIT, 0, 0, 0, 0);
    let mut p = mk(b.v, tag, Class::ProbeStack);
    p.p0 = imm as i64; // sign-extended by ST_DW_IMM
    p
}

pub fn gen_stack_plain(rng: &mut Rng, tag: u8, with_call: bool) -> Prog {
    let a = rng.below(256) as i32;
    let c = rng.below(256) as i32;
    let mut b = B::new(tag);
    b.i(STB_IMM, 10, 0, -1, a); // 1
    b.i(STB_IMM, 10, 0, -512, c); // 2
    if with_call {
        // 3: call f (at 10)
        b.i(CALL, 0, 1, 0, 6); // 3 -> 3+1+6 = 10
    } else {
        b.i(MOV64_IMM, 0, 0, 0, 0); // 3
    }
    b.i(LDXB, 0, 10, -512, 0); // 4
    b.i(LDXB, 2, 10, -1, 0); // 5
    b.i(LSH64_IMM, 0, 0, 0, 8); // 6
    b.i(OR64_REG, 0, 2, 0, 0); // 7
    b.i(LSH64_IMM, 0, 0, 0, 8); // 8  (trailer inlined to keep the layout fixed)
    b.i(OR64_IMM, 0, 0, 0, tag as i32);
    // 9 is OR; exit at 10 would collide with f, so put exit then f
    // layout fix: recompute below
    let mut v = b.v;
    v.extend_from_slice(&ins(EXIT, 0, 0, 0, 0)); // 10
    if with_call {
        // f at 11: r0 = 0; exit   -> fix the displacement: 3 + 1 + imm = 11 => imm = 7
        v[3 * 8 + 4..3 * 8 + 8].copy_from_slice(&7i32.to_le_bytes());
        v.extend_from_slice(&ins(MOV64_IMM, 0, 0, 0, 0));
        v.extend_from_slice(&ins(EXIT, 0, 0, 0, 0));
    }
    let mut p = mk(v, tag, Class::StackPlain);
    p.p0 = ((c as i64) << 8) | a as i64;
    p.local_call = with_call;
    p
}

/// Raw: stb [r1+0], v.  Mbuff/Fixed: packet is not reachable without caller-stored pointers, so
/// this class is Raw-only.
pub fn gen_store_pkt(rng: &mut Rng, tag: u8) -> Prog {
    let v = rng.below(256) as i32;
    let mut b = B::new(tag);
    b.i(STB_IMM, 1, 0, 0, v);
    b.i(MOV64_IMM, 0, 0, 0, v);
    b.trailer(tag);
    let mut p = mk(b.v, tag, Class::StorePkt);
    p.p0 = v as i64;
    p.min_pkt = 1;
    p
}
