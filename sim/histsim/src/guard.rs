//! Seams owned by the simulator that are not function-pointer seams of rbpf:
//!  * the process allocator (so the JIT code-page allocation can be made to fail once);
//!  * fatal-signal recovery around calls into compiled eBPF code (so a stale compiled program
//!    that traps or faults is an *observed outcome* of the history-laden VM, not the death of the
//!    worker).

use std::alloc::{GlobalAlloc, Layout, System};
use std::cell::Cell;
use std::sync::atomic::{AtomicU64, Ordering};

// ---------------------------------------------------------------------------------------------
// Allocator seam
// ---------------------------------------------------------------------------------------------

pub struct FaultAlloc;

/// 1 = the next allocation with alignment 4096 returns null (one shot).
static ARM_PAGE_ALLOC_FAIL: AtomicU64 = AtomicU64::new(0);
/// How many times the armed fault actually fired (measured at the seam).
pub static PAGE_ALLOC_FAIL_FIRED: AtomicU64 = AtomicU64::new(0);
/// How many 4096-aligned allocations were seen at all.
pub static PAGE_ALLOCS_SEEN: AtomicU64 = AtomicU64::new(0);

// Byte buffers allocated while `GUARD_BYTES` is on (the harness switches it on around the
// construction / re-configuration of a fixed-metadata VM) get a canary-filled slack behind them,
// so that compiled code writing beyond the VM's private metadata buffer lands in the slack — a
// deterministic, attributable observation — instead of trampling the worker's heap.
pub const SLACK: usize = 131072;
const CANARY: u8 = 0xC5;
const MAXG: usize = 64;
static GUARD_BYTES: AtomicU64 = AtomicU64::new(0);

struct GuardTable(std::cell::UnsafeCell<([(usize, usize); MAXG], usize)>);
unsafe impl Sync for GuardTable {}
static GUARDED: GuardTable = GuardTable(std::cell::UnsafeCell::new(([(0, 0); MAXG], 0)));

unsafe fn guarded_lookup(ptr: *mut u8, remove: bool) -> Option<usize> {
    let t = &mut *GUARDED.0.get();
    for i in 0..t.1 {
        if t.0[i].0 == ptr as usize {
            let size = t.0[i].1;
            if remove {
                t.0[i] = t.0[t.1 - 1];
                t.1 -= 1;
            }
            return Some(size);
        }
    }
    None
}

unsafe fn guarded_alloc(size: usize, zeroed: bool) -> *mut u8 {
    let t = &mut *GUARDED.0.get();
    let l = Layout::from_size_align_unchecked(size + SLACK, 1);
    let p = if zeroed { System.alloc_zeroed(l) } else { System.alloc(l) };
    if !p.is_null() {
        std::ptr::write_bytes(p.add(size), CANARY, SLACK);
        t.0[t.1] = (p as usize, size);
        t.1 += 1;
    }
    p
}

/// Set when a byte buffer that should have been guarded could not be (table full): the run in
/// flight can no longer rely on the slack and is abandoned as unevaluable.
pub static GUARD_TABLE_FULL: AtomicU64 = AtomicU64::new(0);

fn want_guard(layout: &Layout) -> bool {
    if layout.align() == 1 && layout.size() > 0 && GUARD_BYTES.load(Ordering::Relaxed) == 1 {
        if unsafe { (*GUARDED.0.get()).1 < MAXG } {
            return true;
        }
        GUARD_TABLE_FULL.store(1, Ordering::Relaxed);
    }
    false
}

pub fn guard_byte_allocs(on: bool) {
    GUARD_BYTES.store(on as u64, Ordering::Relaxed);
}

/// Was anything written behind a guarded byte buffer? Returns (buffer size, distance of the
/// first damaged byte from the start of the buffer) and repairs the canary.
pub fn check_canaries() -> Option<(usize, usize)> {
    unsafe {
        let t = &mut *GUARDED.0.get();
        let mut found = None;
        for i in 0..t.1 {
            let (p, size) = t.0[i];
            let slack = std::slice::from_raw_parts_mut((p as *mut u8).add(size), SLACK);
            if let Some(k) = slack.iter().position(|b| *b != CANARY) {
                if found.is_none() {
                    found = Some((size, size + k));
                }
                slack.fill(CANARY);
            }
        }
        found
    }
}

unsafe impl GlobalAlloc for FaultAlloc {
    unsafe fn alloc(&self, layout: Layout) -> *mut u8 {
        if layout.align() == 4096 {
            PAGE_ALLOCS_SEEN.fetch_add(1, Ordering::Relaxed);
            if ARM_PAGE_ALLOC_FAIL.swap(0, Ordering::Relaxed) == 1 {
                PAGE_ALLOC_FAIL_FIRED.fetch_add(1, Ordering::Relaxed);
                return std::ptr::null_mut();
            }
        }
        if want_guard(&layout) {
            return guarded_alloc(layout.size(), false);
        }
        System.alloc(layout)
    }
    unsafe fn dealloc(&self, ptr: *mut u8, layout: Layout) {
        if layout.align() == 1 {
            if let Some(size) = guarded_lookup(ptr, true) {
                return System.dealloc(ptr, Layout::from_size_align_unchecked(size + SLACK, 1));
            }
        }
        System.dealloc(ptr, layout)
    }
    unsafe fn alloc_zeroed(&self, layout: Layout) -> *mut u8 {
        if want_guard(&layout) {
            return guarded_alloc(layout.size(), true);
        }
        System.alloc_zeroed(layout)
    }
    unsafe fn realloc(&self, ptr: *mut u8, layout: Layout, new_size: usize) -> *mut u8 {
        if layout.align() == 1 && guarded_lookup(ptr, false).is_some() {
            let new_layout = Layout::from_size_align_unchecked(new_size, 1);
            let np = self.alloc(new_layout);
            if !np.is_null() {
                std::ptr::copy_nonoverlapping(ptr, np, layout.size().min(new_size));
                self.dealloc(ptr, layout);
            }
            return np;
        }
        System.realloc(ptr, layout, new_size)
    }
}

// The mprotect seam: rbpf's `libc::mprotect` resolves to this definition (an executable's own
// symbols come first); everything passes straight through to the system call, except that one armed
// request for an executable mapping fails with EACCES - what a W^X policy (SELinux execmem,
// systemd's MemoryDenyWriteExecute) answers to `PROT_EXEC | PROT_WRITE`.
static ARM_MPROTECT_FAIL: AtomicU64 = AtomicU64::new(0);
pub static MPROTECT_FAIL_FIRED: AtomicU64 = AtomicU64::new(0);
pub static MPROTECT_EXEC_SEEN: AtomicU64 = AtomicU64::new(0);

#[no_mangle]
pub unsafe extern "C" fn mprotect(addr: *mut libc::c_void, len: libc::size_t, prot: libc::c_int) -> libc::c_int {
    if prot & libc::PROT_EXEC != 0 {
        MPROTECT_EXEC_SEEN.fetch_add(1, Ordering::Relaxed);
        if ARM_MPROTECT_FAIL.swap(0, Ordering::Relaxed) == 1 {
            MPROTECT_FAIL_FIRED.fetch_add(1, Ordering::Relaxed);
            // Under such a policy no page of the process has ever been writable and executable: pages
            // recycled from an earlier, successful compile must not stay executable by accident.
            libc::syscall(libc::SYS_mprotect, addr, len, prot & !libc::PROT_EXEC);
            *libc::__errno_location() = libc::EACCES;
            return -1;
        }
    }
    libc::syscall(libc::SYS_mprotect, addr, len, prot) as libc::c_int
}

pub fn arm_mprotect_fail() {
    ARM_MPROTECT_FAIL.store(1, Ordering::Relaxed);
}

pub fn disarm_mprotect_fail() -> bool {
    ARM_MPROTECT_FAIL.swap(0, Ordering::Relaxed) == 1
}

pub fn arm_page_alloc_fail() {
    ARM_PAGE_ALLOC_FAIL.store(1, Ordering::Relaxed);
}

/// Disarm; returns true if the fault was still pending (i.e. it did not fire).
pub fn disarm_page_alloc_fail() -> bool {
    ARM_PAGE_ALLOC_FAIL.swap(0, Ordering::Relaxed) == 1
}

// ---------------------------------------------------------------------------------------------
// Fatal-signal recovery
// ---------------------------------------------------------------------------------------------

#[repr(C)]
pub struct JmpBuf {
    regs: [u64; 8], // rbx rbp r12 r13 r14 r15 rsp (+pad)
}

std::arch::global_asm!(
    ".globl histsim_guarded_call",
    "histsim_guarded_call:",
    // rdi = fn(*mut u8), rsi = arg, rdx = *mut JmpBuf
    "mov [rdx + 0], rbx",
    "mov [rdx + 8], rbp",
    "mov [rdx + 16], r12",
    "mov [rdx + 24], r13",
    "mov [rdx + 32], r14",
    "mov [rdx + 40], r15",
    "mov [rdx + 48], rsp",
    "sub rsp, 8",
    "mov rax, rdi",
    "mov rdi, rsi",
    "call rax",
    "add rsp, 8",
    "xor eax, eax",
    "ret",
    ".globl histsim_guarded_recover",
    "histsim_guarded_recover:",
    // entered from the signal handler's sigreturn with rdi = *mut JmpBuf
    "mov rbx, [rdi + 0]",
    "mov rbp, [rdi + 8]",
    "mov r12, [rdi + 16]",
    "mov r13, [rdi + 24]",
    "mov r14, [rdi + 32]",
    "mov r15, [rdi + 40]",
    "mov rsp, [rdi + 48]",
    "mov eax, 1",
    "ret",
);

extern "C" {
    fn histsim_guarded_call(f: extern "C" fn(*mut u8), arg: *mut u8, jb: *mut JmpBuf) -> u32;
    fn histsim_guarded_recover();
}

thread_local! {
    static GUARD_JB: Cell<*mut JmpBuf> = const { Cell::new(std::ptr::null_mut()) };
    static LAST_SIGNAL: Cell<i32> = const { Cell::new(0) };
}

extern "C" fn on_fatal(sig: libc::c_int, _info: *mut libc::siginfo_t, ctx: *mut libc::c_void) {
    let jb = GUARD_JB.with(|g| g.get());
    if jb.is_null() {
        // Not inside a guarded call: a genuine harness crash. Restore default and re-raise.
        unsafe {
            libc::signal(sig, libc::SIG_DFL);
            libc::raise(sig);
        }
        return;
    }
    GUARD_JB.with(|g| g.set(std::ptr::null_mut()));
    LAST_SIGNAL.with(|s| s.set(sig));
    unsafe {
        let uc = ctx as *mut libc::ucontext_t;
        (*uc).uc_mcontext.gregs[libc::REG_RIP as usize] = histsim_guarded_recover as usize as i64;
        (*uc).uc_mcontext.gregs[libc::REG_RDI as usize] = jb as usize as i64;
        // clear the direction and trap flags
        (*uc).uc_mcontext.gregs[libc::REG_EFL as usize] &= !0x500;
    }
}

pub fn install_signal_handlers() {
    unsafe {
        // alternate stack so that a smashed stack pointer still lets the handler run
        let size = 1 << 16;
        let stack = libc::mmap(
            std::ptr::null_mut(),
            size,
            libc::PROT_READ | libc::PROT_WRITE,
            libc::MAP_PRIVATE | libc::MAP_ANONYMOUS,
            -1,
            0,
        );
        let ss = libc::stack_t { ss_sp: stack, ss_flags: 0, ss_size: size };
        libc::sigaltstack(&ss, std::ptr::null_mut());
        for sig in [libc::SIGILL, libc::SIGSEGV, libc::SIGBUS, libc::SIGFPE, libc::SIGTRAP, libc::SIGABRT] {
            let mut sa: libc::sigaction = std::mem::zeroed();
            sa.sa_sigaction = on_fatal as usize;
            sa.sa_flags = libc::SA_SIGINFO | libc::SA_ONSTACK | libc::SA_NODEFER;
            libc::sigemptyset(&mut sa.sa_mask);
            libc::sigaction(sig, &sa, std::ptr::null_mut());
        }
    }
}

pub enum Guarded<T> {
    Done(T),
    Signal(i32),
    Panic(String),
}

struct CallCtx<'a, T> {
    f: Option<Box<dyn FnOnce() -> T + 'a>>,
    out: Option<std::thread::Result<T>>,
}

extern "C" fn trampoline<T>(p: *mut u8) {
    let ctx = unsafe { &mut *(p as *mut CallCtx<T>) };
    let f = ctx.f.take().unwrap();
    ctx.out = Some(std::panic::catch_unwind(std::panic::AssertUnwindSafe(f)));
}

/// Run `f` so that a fatal signal or a panic inside it becomes a value. After `Signal` the frames
/// of `f` were abandoned without unwinding (their heap allocations leak); callers end the run.
pub fn guarded<'a, T>(f: impl FnOnce() -> T + 'a) -> Guarded<T> {
    let mut ctx: CallCtx<T> = CallCtx { f: Some(Box::new(f)), out: None };
    let mut jb = JmpBuf { regs: [0; 8] };
    GUARD_JB.with(|g| g.set(&mut jb));
    let r = unsafe { histsim_guarded_call(trampoline::<T>, &mut ctx as *mut _ as *mut u8, &mut jb) };
    GUARD_JB.with(|g| g.set(std::ptr::null_mut()));
    if r == 1 {
        // the boxed closure (if not yet taken) and anything it owned leak; fine.
        std::mem::forget(ctx);
        return Guarded::Signal(LAST_SIGNAL.with(|s| s.get()));
    }
    match ctx.out.take().unwrap() {
        Ok(v) => Guarded::Done(v),
        Err(e) => {
            let msg = if let Some(s) = e.downcast_ref::<&str>() {
                s.to_string()
            } else if let Some(s) = e.downcast_ref::<String>() {
                s.clone()
            } else {
                "panic".to_string()
            };
            Guarded::Panic(msg)
        }
    }
}

// ---------------------------------------------------------------------------------------------
// In-flight marker: a shared mapping of a small file that survives the death of this process,
// so the driver can tell which run, which operation and which phase (fresh VM / history VM) was
// executing. Writing it is a plain memory store (no system call).
// ---------------------------------------------------------------------------------------------

static MARKER: std::sync::atomic::AtomicPtr<u64> = std::sync::atomic::AtomicPtr::new(std::ptr::null_mut());

pub const PHASE_IDLE: u64 = 0;
pub const PHASE_FRESH: u64 = 1;
pub const PHASE_SUT: u64 = 2;

pub fn marker_open(path: &str) {
    use std::os::unix::io::AsRawFd;
    let f = match std::fs::OpenOptions::new().read(true).write(true).create(true).truncate(true).open(path) {
        Ok(f) => f,
        Err(_) => return,
    };
    if f.set_len(32).is_err() {
        return;
    }
    unsafe {
        let p = libc::mmap(std::ptr::null_mut(), 32, libc::PROT_READ | libc::PROT_WRITE, libc::MAP_SHARED, f.as_raw_fd(), 0);
        if p != libc::MAP_FAILED {
            MARKER.store(p as *mut u64, Ordering::Relaxed);
        }
    }
    std::mem::forget(f);
}

#[inline]
pub fn mark_run(index: u64) {
    let p = MARKER.load(Ordering::Relaxed);
    if !p.is_null() {
        unsafe {
            p.write_volatile(index);
            p.add(1).write_volatile(PHASE_IDLE);
            p.add(2).write_volatile(0);
            p.add(3).write_volatile(1); // valid
        }
    }
}

#[inline]
pub fn mark_phase(phase: u64) {
    let p = MARKER.load(Ordering::Relaxed);
    if !p.is_null() {
        unsafe { p.add(1).write_volatile(phase) }
    }
}

#[inline]
pub fn mark_op(op: u64) {
    let p = MARKER.load(Ordering::Relaxed);
    if !p.is_null() {
        unsafe { p.add(2).write_volatile(op) }
    }
}

pub fn marker_done() {
    let p = MARKER.load(Ordering::Relaxed);
    if !p.is_null() {
        unsafe { p.add(3).write_volatile(0) }
    }
}
