//! Seeded scenario generation: a swarm configuration is drawn first (VM kind, buffers, offsets,
//! program pool, operation weights, fault kinds), then a history guided by the abstract model so
//! that the interesting adjacencies (load right after a compile, execution right after a failed
//! call, a fault armed immediately before the call that meets it) happen often.

use crate::progs::*;
use crate::sim::*;
use crate::vmwrap::*;
use simcore::Rng;

fn gen_offsets(rng: &mut Rng) -> Vec<(usize, usize)> {
    let n = rng.range(2, 5) as usize;
    let mut v: Vec<(usize, usize)> = Vec::new();
    while v.len() < n {
        let pair = match rng.below(8) {
            0 => (0x40, 0x50),
            1 => {
                let a = *rng.pick(&[0usize, 8, 16, 24, 64]);
                (a, a + 8)
            }
            2 => {
                let a = *rng.pick(&[0usize, 8, 16, 40]);
                (a + 8, a)
            }
            3 => {
                // unaligned, adjacent
                let a = rng.range(1, 50) as usize;
                if rng.chance(1, 2) {
                    (a, a + 8)
                } else {
                    (a + 8, a)
                }
            }
            4 => {
                let a = rng.range(0, 64) as usize;
                let d = rng.range(9, 400) as usize;
                (a, a + d)
            }
            5 => {
                let a = rng.range(0, 64) as usize;
                let d = rng.range(9, 400) as usize;
                (a + d, a)
            }
            6 => {
                // large: around the 8-bit, 16-bit-signed and 16-bit displacement limits and beyond
                let a = *rng.pick(&[120usize, 128, 4096, 32760, 32768, 40000]) + rng.range(0, 16) as usize;
                let b = *rng.pick(&[16000usize, 32768, 65528, 65536, 100000]) + rng.range(0, 600) as usize;
                let (a, b) = if a.abs_diff(b) < 8 { (a, b + 64) } else { (a, b) };
                if rng.chance(1, 2) {
                    (a, b)
                } else {
                    (b, a)
                }
            }
            _ => {
                let a = rng.range(0, 200) as usize;
                let b = rng.range(0, 200) as usize;
                (a, b)
            }
        };
        if offsets_ok(pair.0, pair.1) && !v.contains(&pair) {
            v.push(pair);
        }
        // sometimes a sibling configuration follows: same buffer length, the lower slot moved
        if !v.is_empty() && v.len() < n && rng.chance(1, 3) {
            let (d, e) = *v.last().unwrap();
            let (lo, hi) = (d.min(e), d.max(e));
            if hi >= 16 {
                let nlo = rng.below((hi - 8) as u64 + 1) as usize;
                let sib = if d < e { (nlo, hi) } else { (hi, nlo) };
                if nlo != lo && offsets_ok(sib.0, sib.1) && !v.contains(&sib) {
                    v.push(sib);
                }
            }
        }
    }
    v
}

/// A byte of the fixed-metadata buffer configured by (d, e) that lies outside both slots. Drawn
/// from a small set, so that a storing and a reading program often meet: the first free bytes, the
/// last ones, and bytes where *another* configuration of this run keeps its slots.
fn pick_meta_byte(rng: &mut Rng, d: usize, e: usize, offsets: &[(usize, usize)]) -> Option<usize> {
    let len = d.max(e) + 8;
    let free = |k: usize| k < len && !(d..d + 8).contains(&k) && !(e..e + 8).contains(&k);
    let mut cands: Vec<usize> = Vec::new();
    cands.extend((0..len.min(24)).filter(|k| free(*k)).take(2));
    cands.extend((len.saturating_sub(24)..len).rev().filter(|k| free(*k)).take(2));
    for (od, oe) in offsets {
        if (*od, *oe) != (d, e) {
            for base in [*od, *oe] {
                let k = base + rng.range(0, 5) as usize;
                if free(k) {
                    cands.push(k);
                    cands.push(k); // preferred: an old slot read as plain bytes
                }
            }
        }
    }
    if cands.is_empty() {
        None
    } else {
        Some(*rng.pick(&cands))
    }
}

fn class_weights(mode: Prop, kind: Kind, mbuff_len: usize) -> Vec<(Class, u32)> {
    let mut w: Vec<(Class, u32)> = Vec::new();
    let has_pkt = kind.has_packet();
    match mode {
        Prop::C10 => {
            w.push((Class::Const, 4));
            w.push((Class::Alu, 4));
            w.push((Class::Helper, 3));
            w.push((Class::LocalCall, 2));
            w.push((Class::HarmlessInvalid, 2));
            w.push((Class::Unsafe, 1));
            w.push((Class::StackPlain, 1));
            w.push((Class::StackLeakWrite, 1));
            w.push((Class::StackLeakRead, 2));
            w.push((Class::LongAlu, 1));
            w.push((Class::FailInCallee, 1));
            w.push((Class::PeekOtherProgram, 2));
            w.push((Class::StackFill, 1));
            w.push((Class::Mixed, 5));
            if kind != Kind::Fixed {
                // on the fixed-metadata VM r1 is the VM's private buffer: not comparable across VMs
                w.push((Class::R1Plain, 1));
            }
            if kind == Kind::Fixed {
                w.push((Class::SlotPlain, 5));
                w.push((Class::ProbeSlotLen, 1));
                w.push((Class::FixedBeyondEnd, 2));
                w.push((Class::MetaStore, 4));
                w.push((Class::MetaRead, 4));
            }
            if kind == Kind::Raw {
                w.push((Class::ProbeR1Load, 2));
                w.push((Class::StorePkt, 2));
            }
            if kind == Kind::Mbuff && mbuff_len > 0 {
                w.push((Class::ProbeR1Load, 2));
            }
            if has_pkt {
                w.push((Class::ProbePktAbs, 1));
                w.push((Class::ProbePktInd, 1));
                w.push((Class::ProbePktChain, 1));
                w.push((Class::ProbePktLoop, 1));
                w.push((Class::ProbeHelperThenPkt, 1));
                w.push((Class::ProbeCallThenPkt, 1));
            }
            if kind == Kind::Raw || kind == Kind::Fixed {
                w.push((Class::ProbePktReload, 1));
            }
            if has_pkt {
                w.push((Class::DeepCall, 1));
            }
        }
        Prop::C09 => {
            w.push((Class::Const, 2));
            w.push((Class::Alu, 1));
            w.push((Class::Helper, 1));
            w.push((Class::HarmlessInvalid, 1));
            w.push((Class::ProbeStack, 3));
            w.push((Class::StackFill, 2));
            w.push((Class::StackPlain, 1));
            w.push((Class::Mixed, 1));
            if kind == Kind::Fixed {
                w.push((Class::ProbeSlotData, 4));
                w.push((Class::ProbeSlotLen, 4));
                w.push((Class::SlotPlain, 1));
            } else {
                w.push((Class::ProbeR1, 5));
                w.push((Class::R1Plain, 1));
            }
            if kind == Kind::Raw {
                w.push((Class::ProbeR1Load, 1));
            }
            if has_pkt {
                w.push((Class::ProbePktAbs, 3));
                w.push((Class::ProbePktInd, 3));
                w.push((Class::ProbePktChain, 2));
                w.push((Class::ProbePktLoop, 2));
                w.push((Class::ProbeHelperThenPkt, 3));
                w.push((Class::ProbeCallThenPkt, 2));
            }
            if kind == Kind::Raw || kind == Kind::Fixed {
                w.push((Class::ProbePktReload, 2));
            }
        }
    }
    w
}

/// Longest history generated (set once from the command line; the thorough tier uses longer ones).
pub static MAX_OPS: std::sync::atomic::AtomicU64 = std::sync::atomic::AtomicU64::new(40);

pub fn generate(rng: &mut Rng, mode: Prop) -> Scenario {
    // ---- swarm configuration ---------------------------------------------------------------
    let kind = match mode {
        Prop::C10 => *rng.pick(&Kind::ALL),
        Prop::C09 => *rng.pick(&[Kind::Mbuff, Kind::Fixed, Kind::Fixed, Kind::Raw, Kind::NoData]),
    };
    let faults = mode == Prop::C10 && rng.chance(1, 2);
    // packets
    let mut packets: Vec<Vec<u8>> = Vec::new();
    if kind.has_packet() {
        let n = rng.range(3, 4);
        for i in 0..n {
            let len = if i == 0 {
                // the packet every probe of the pool is made for; sometimes long enough for packet
                // offsets beyond the 8-, 15- and 16-bit limits
                match rng.below(10) {
                    0 => rng.range(300, 400),
                    1 => rng.range(66000, 70000),
                    _ => rng.range(40, 64),
                }
            } else {
                match rng.below(20) {
                    0..=3 => 0,
                    4..=7 => rng.range(1, 7),
                    8..=11 => rng.range(8, 23),
                    12 => rng.range(250, 260),   // around one byte of length
                    13 => rng.range(65530, 65600), // around two bytes of length
                    _ => rng.range(24, 64),
                }
            } as usize;
            packets.push((0..len).map(|_| rng.next_u64() as u8).collect());
        }
    } else {
        packets.push(Vec::new());
    }
    // some packets are prefix views of the first packet's buffer: same start address, other length
    let mut prefix_of: Vec<Option<usize>> = vec![None; packets.len()];
    if kind.has_packet() {
        for i in 1..packets.len() {
            if rng.chance(1, 3) {
                let l0 = packets[0].len();
                let len = match rng.below(4) {
                    0 => 0,
                    1 => rng.range(1, 16) as usize,
                    _ => rng.range(1, l0 as u64 - 1) as usize,
                };
                packets[i] = packets[0][..len].to_vec();
                prefix_of[i] = Some(0);
            }
        }
    }
    let mbuff_len = if kind == Kind::Mbuff { *rng.pick(&[0usize, 8, 32, 32, 32, 64]) } else { 0 };
    let mbuffs: Vec<Vec<u8>> = if kind == Kind::Mbuff { (0..2).map(|_| (0..mbuff_len).map(|_| rng.next_u64() as u8).collect()).collect() } else { Vec::new() };
    let offsets = if kind == Kind::Fixed { gen_offsets(rng) } else { vec![(0, 8)] };

    // program pool
    let mut cw = class_weights(mode, kind, mbuff_len);
    for c in cw.iter_mut() {
        c.1 *= *rng.pick(&[0u32, 1, 1, 2]);
    }
    if cw.iter().all(|c| c.1 == 0 || matches!(c.0, Class::Unsafe | Class::HarmlessInvalid)) {
        cw.push((Class::Const, 1));
    }
    let npool = rng.range(4, 12) as usize;
    let p0len = packets[0].len();
    let mut progs: Vec<Prog> = Vec::new();
    for i in 0..npool {
        let tag = (i + 1) as u8;
        let class = if i == 0 { Class::Const } else { cw[rng.weighted(&cw.iter().map(|c| c.1).collect::<Vec<_>>())].0 };
        let p = match class {
            Class::Const => gen_const(rng, tag),
            Class::Alu => gen_alu(rng, tag),
            Class::Helper => gen_helper(rng, tag),
            Class::LocalCall => gen_local_call(rng, tag),
            Class::HarmlessInvalid => gen_harmless_invalid(rng, tag),
            Class::Unsafe => gen_unsafe(rng, tag),
            Class::R1Plain => gen_r1_plain(tag),
            Class::ProbeR1 => gen_probe_r1(tag),
            Class::ProbeSlotData | Class::ProbeSlotLen => {
                let (d, e) = *rng.pick(&offsets);
                gen_probe_slot(tag, d, e, class == Class::ProbeSlotLen)
            }
            Class::SlotPlain => {
                let (d, e) = *rng.pick(&offsets);
                gen_slot_plain(tag, d, e)
            }
            Class::ProbePktAbs => {
                let idx = pick_pkt_index(rng, p0len - 8);
                gen_probe_pkt_abs(tag, idx, *rng.pick(&[1u8, 1, 2, 4, 8]))
            }
            Class::ProbePktInd => {
                // the index is split between the immediate and the register, either may be the large part
                let total = pick_pkt_index(rng, p0len - 8);
                let idx = if rng.chance(1, 2) { rng.below(8.min(total as u64 + 1)) as usize } else { total - rng.below(8.min(total as u64 + 1)) as usize };
                let reg = total - idx;
                // any register may carry the register part (r0 included: it is also the destination)
                let src = *rng.pick(&[3u8, 3, 0, 2, 4, 5, 6, 7, 8]);
                // sometimes the register part is negative and the immediate makes up for it
                let (idx, reg) = if rng.chance(1, 6) {
                    let x = rng.range(1, 64) as usize;
                    (total + x, -(x as i64))
                } else {
                    (idx, reg as i64)
                };
                gen_probe_pkt_ind(tag, idx, reg, *rng.pick(&[1u8, 1, 2, 4, 8]), src)
            }
            Class::ProbeR1Load => {
                // the index is the instruction's 16-bit signed offset
                let lim = (if kind == Kind::Raw { p0len } else { mbuff_len }).min(32000);
                gen_probe_r1_load(tag, rng.below(lim as u64) as usize, kind)
            }
            Class::ProbeStack => gen_probe_stack(rng, tag),
            Class::StackPlain => {
                let with_call = rng.chance(1, 2);
                gen_stack_plain(rng, tag, with_call)
            }
            Class::StorePkt => gen_store_pkt(rng, tag),
            Class::ProbeHelperThenPkt => {
                let idx = rng.below((p0len.min(200) - 8) as u64 + 1) as usize;
                let ind = rng.chance(1, 2);
                gen_probe_helper_then_pkt(rng, tag, idx, ind)
            }
            Class::FixedBeyondEnd => {
                let (d, e) = *rng.pick(&offsets);
                let beyond = *rng.pick(&[0usize, 0, 1, 7, 8, 64, 1000, 30000]);
                gen_fixed_beyond_end(tag, d, e, beyond)
            }
            Class::MetaStore | Class::MetaRead => {
                let (d, e) = *rng.pick(&offsets);
                match pick_meta_byte(rng, d, e, &offsets) {
                    None => gen_const(rng, tag), // no byte outside the two slots
                    Some(k) if class == Class::MetaStore => gen_meta_store(tag, d, e, k, rng.range(1, 255) as u8, rng.chance(1, 2)),
                    Some(k) => gen_meta_read(tag, d, e, k, if rng.chance(1, 2) { Some(rng.range(1, 255) as u8) } else { None }),
                }
            }
            Class::StackFill => gen_stack_fill(rng, tag, kind.has_packet()),
            Class::DeepCall => {
                if rng.chance(1, 2) {
                    gen_deep_call(tag)
                } else {
                    gen_deep_call_chain(tag)
                }
            }
            Class::ProbePktLoop => {
                let count = rng.range(2, 6) as usize;
                let step = *rng.pick(&[1usize, 1, 2, 3, 8]);
                let imm = rng.below(5) as usize;
                let span = (count - 1) * step + imm;
                let start = if p0len > span + 16 { pick_pkt_index(rng, p0len - 8 - span) } else { 0 };
                gen_probe_pkt_loop(tag, start, count, step, imm, *rng.pick(&[1u8, 1, 2, 4]))
            }
            Class::ProbePktChain => {
                if p0len < 300 {
                    gen_probe_pkt_abs(tag, 0, 1) // only long packets can be indexed by a loaded byte
                } else {
                    let n = rng.range(2, 3) as usize;
                    let imms: Vec<usize> = (0..n).map(|_| rng.below(24) as usize).collect();
                    gen_probe_pkt_chain(tag, rng.below(16) as usize, &imms, rng.chance(2, 3), *rng.pick(&[3u8, 2, 6, 7]))
                }
            }
            Class::ProbePktReload => {
                let w = *rng.pick(&[1u8, 2, 4]);
                let idx = pick_pkt_index(rng, p0len - 8).max(3);
                let d = if kind == Kind::Fixed { Some(rng.pick(&offsets).0) } else { None };
                let mut p = gen_probe_pkt_reload(tag, idx, w, rng.chance(1, 2), d);
                if kind == Kind::Fixed {
                    p.offsets = offsets.iter().copied().find(|o| Some(o.0) == d);
                }
                p
            }
            Class::PeekOtherProgram => gen_peek_other_program(tag, rng.below(i as u64) as usize), // an earlier pool entry
            Class::Mixed => gen_mixed(rng, tag, kind, p0len, mbuff_len),
            Class::LongAlu => gen_long_alu(rng, tag),
            Class::FailInCallee => gen_fail_in_callee(tag),
            Class::ProbeCallThenPkt => {
                let i = rng.below((p0len.min(200) - 8) as u64 + 1) as usize;
                let j = rng.below((p0len.min(200) - 8) as u64 + 1) as usize;
                gen_probe_call_then_pkt(tag, i, j)
            }
            Class::StackLeakWrite => gen_stack_leak_write(rng, tag),
            Class::StackLeakRead => gen_stack_leak_read(tag),
            Class::ViewLong | Class::ViewShort => gen_const(rng, tag), // only ever placed as a pair, below
        };
        progs.push(p);
    }
    // sometimes (raw VM): two pool programs are views of one buffer - the short one is a prefix of the
    // long one - and one packet starts with the byte on which they differ
    let mut packets = packets;
    if kind == Kind::Raw && mode == Prop::C10 && npool >= 4 && rng.chance(1, 6) {
        let a = 1 + rng.below(npool as u64 - 1) as usize;
        let mut b = 1 + rng.below(npool as u64 - 1) as usize;
        if b == a {
            b = if a + 1 < npool { a + 1 } else { a - 1 };
        }
        if b >= 1 {
            progs[a] = gen_view_long((a + 1) as u8);
            progs[b] = gen_view_short(&progs[a].clone(), a);
            match (1..packets.len()).find(|i| prefix_of[*i].is_none() && !packets[*i].is_empty()) {
                Some(i) => packets[i][0] = 5,
                None => {
                    // no packet of its own to mark: one more packet, starting with the byte
                    let mut p: Vec<u8> = (0..rng.range(8, 40)).map(|_| rng.next_u64() as u8).collect();
                    p[0] = 5;
                    packets.push(p);
                    prefix_of.push(None);
                }
            }
        }
    }
    // sometimes one program of the pool is a byte-identical copy of another (a different slice
    // with the same contents: loading it is a load like any other)
    if npool >= 3 && rng.chance(1, 4) {
        let src = rng.below(npool as u64) as usize;
        let dst = rng.below(npool as u64) as usize;
        if src != dst && dst != 0 {
            progs[dst] = progs[src].clone();
        }
    }

    // a packet that ends exactly where a packet probe's load ends (a prefix view of the first packet)
    let mut packets = packets;
    let mut prefix_of = prefix_of;
    if kind.has_packet() {
        let ends: Vec<usize> = progs.iter().filter(|p| matches!(p.class, Class::ProbePktAbs | Class::ProbePktInd | Class::ProbePktReload)).map(|p| p.min_pkt).filter(|e| *e <= packets[0].len()).collect();
        for e in ends.into_iter().take(2) {
            if rng.chance(1, 2) {
                packets.push(packets[0][..e].to_vec());
                prefix_of.push(Some(0));
            }
        }
    }

    // operation weights for this run
    let mut sc = Scenario { kind, progs, packets, prefix_of, mbuffs, ops: Vec::new() };
    let wv = |rng: &mut Rng, base: u32| base * *rng.pick(&[0u32, 1, 1, 2, 3]);
    let w_new = wv(rng, 1);
    let w_setprog = wv(rng, 4).max(1);
    let w_setver = wv(rng, 2);
    let w_helper = wv(rng, 2);
    let w_calc = wv(rng, 1);
    let w_jit = wv(rng, 2);
    let w_cl = wv(rng, 1);
    let w_exec = wv(rng, 6).max(2);
    let w_fault = if faults { wv(rng, 2).max(1) } else { 0 };
    let weights = [w_new, w_setprog, w_setver, w_helper, w_calc, w_jit, w_cl, w_exec, w_fault];
    let nops = rng.range(5, MAX_OPS.load(std::sync::atomic::Ordering::Relaxed).max(5)) as usize;

    // ---- history ---------------------------------------------------------------------------
    let mut gm: Option<Model> = None; // the generator's own prediction of the VM state
    let mut forced: Vec<Op> = Vec::new();
    // what this VM has seen so far: programs it had loaded, (engine, program) pairs it had compiled
    let mut past = Past::default();
    let mut guard_iters = 0;
    while sc.ops.len() < nops && guard_iters < 4000 {
        guard_iters += 1;
        let op = if let Some(op) = forced.pop() {
            op
        } else if gm.is_none() {
            gen_new(rng, &sc, &offsets)
        } else {
            let m = gm.as_ref().unwrap();
            match rng.weighted(&weights) {
                0 => gen_new(rng, &sc, &offsets),
                1 if rng.chance(1, 600) => {
                    // very rarely: compile, then load a program 256 / 65536 (or one more, or one less)
                    // times in a row, then run the compiled code - a generation counter that wraps
                    let engine = if rng.chance(1, 2) { Engine::Jit } else { Engine::Cl };
                    let times = *rng.pick(&[256u32, 257, 255, 65536, 65536, 65537, 65535]);
                    forced.push(Op::Exec { engine, pkt: gen_pkt(rng, &sc, m), mb: 0 });
                    forced.push(gen_set_program(rng, &sc, m, &offsets, &past));
                    forced.push(Op::Repeat { times });
                    if engine == Engine::Jit { Op::JitCompile } else { Op::ClCompile }
                }
                1 => gen_set_program(rng, &sc, m, &offsets, &past),
                2 => Op::SetVerifier { vid: rng.range(V_DEFAULT_EQ as u64, V_TAG_ODD as u64) as u8 },
                3 => {
                    // rarely a burst of registrations under keys no program calls: the helper table
                    // grows past the sizes at which a hash table re-hashes (or a small array spills)
                    if rng.chance(1, 30) {
                        let base = 0x100 + rng.below(64) as u32;
                        for k in 0..rng.range(8, 30) as u32 {
                            forced.push(Op::RegisterHelper { key: base + k, hid: rng.range(H_MIX0 as u64, H_MIX3 as u64) as u8 });
                        }
                    }
                    gen_register_helper(rng, mode, &sc, m, &past)
                }
                4 => Op::SetCalc { cid: rng.below(N_CALCS as u64) as u8 },
                5 => Op::JitCompile,
                6 => Op::ClCompile,
                7 => gen_exec(rng, &sc, m),
                _ => {
                    // a fault, armed right before a call that can meet it
                    match rng.below(4) {
                        0 => {
                            forced.push(gen_set_program(rng, &sc, m, &offsets, &past));
                            Op::ArmVeto
                        }
                        3 => {
                            // (popped last first: the compile meets the fault, then the code is run)
                            forced.push(Op::Exec { engine: Engine::Jit, pkt: gen_pkt(rng, &sc, m), mb: 0 });
                            forced.push(Op::JitCompile);
                            Op::ArmMprotectFail
                        }
                        1 => {
                            forced.push(Op::SetVerifier { vid: rng.range(V_DEFAULT_EQ as u64, V_TAG_ODD as u64) as u8 });
                            Op::ArmVeto
                        }
                        _ => {
                            forced.push(Op::JitCompile);
                            Op::ArmAllocFail
                        }
                    }
                }
            }
        };
        if !op_is_safe(&sc, gm.as_ref(), &op) {
            continue;
        }
        // adjacency biases
        let before = gm.clone();
        let pending_veto = matches!(sc.ops.last(), Some(Op::ArmVeto));
        let pending_alloc = matches!(sc.ops.last(), Some(Op::ArmAllocFail | Op::ArmMprotectFail));
        let succeeded = assume_correct(&sc, &mut gm, &op, pending_veto, pending_alloc);
        let is_new = matches!(op, Op::New { .. });
        let is_compile = matches!(op, Op::JitCompile | Op::ClCompile);
        // remember what was loaded / compiled (a new VM forgets)
        if succeeded {
            match &op {
                Op::New { pid, .. } => {
                    past = Past::default();
                    if let Some(p) = pid {
                        past.loaded.push(*p);
                    }
                }
                Op::SetProgram { pid, .. } => past.loaded.push(*pid),
                Op::JitCompile => {
                    if let Some(p) = gm.as_ref().and_then(|m| m.prog) {
                        past.compiled.push((Engine::Jit, p));
                    }
                }
                Op::ClCompile => {
                    if let Some(p) = gm.as_ref().and_then(|m| m.prog) {
                        past.compiled.push((Engine::Cl, p));
                    }
                }
                _ => {}
            }
        }
        let reloaded_compiled: Option<Engine> = match (&op, succeeded) {
            (Op::SetProgram { pid, .. }, true) => past.compiled.iter().rev().find(|c| c.1 == *pid).map(|c| c.0),
            _ => None,
        };
        sc.ops.push(op);
        if forced.is_empty() {
            if let Some(m) = gm.as_ref() {
                if let (Some(engine), true) = (reloaded_compiled, rng.chance(3, 5)) {
                    // a program this VM had compiled earlier is loaded again: compile it again with the
                    // same compiler and run it (anything cached from the first time shows now)
                    forced.push(Op::Exec { engine, pkt: gen_pkt(rng, &sc, m), mb: 0 });
                    forced.push(if engine == Engine::Jit { Op::JitCompile } else { Op::ClCompile });
                } else if matches!(sc.ops.last(), Some(Op::RegisterHelper { key, hid }) if before.as_ref().and_then(|b| b.helpers.get(key)).map(|h| h != hid).unwrap_or(false)) && (m.jit.is_some() || m.cl.is_some()) && rng.chance(1, 2) {
                    // the function behind a key was replaced while compiled code exists: compile again
                    // (with both compilers, in either order, when both have code) and run the last one
                    let (e1, e2) = if rng.chance(1, 2) { (Engine::Jit, Engine::Cl) } else { (Engine::Cl, Engine::Jit) };
                    let comp = |e: Engine| if e == Engine::Jit { Op::JitCompile } else { Op::ClCompile };
                    let has = |e: Engine| if e == Engine::Jit { m.jit.is_some() } else { m.cl.is_some() };
                    if has(e1) && has(e2) {
                        forced.push(Op::Exec { engine: e2, pkt: gen_pkt(rng, &sc, m), mb: 0 });
                        forced.push(comp(e2));
                        forced.push(comp(e1));
                    } else {
                        let e = if has(e1) { e1 } else { e2 };
                        forced.push(Op::Exec { engine: e, pkt: gen_pkt(rng, &sc, m), mb: 0 });
                        forced.push(comp(e));
                    }
                } else if is_compile && succeeded && rng.chance(2, 5) {
                    forced.push(gen_set_program(rng, &sc, m, &offsets, &past));
                } else if !succeeded && before.is_some() && rng.chance(1, 2) {
                    forced.push(gen_exec(rng, &sc, m));
                } else if is_new && succeeded && mode == Prop::C09 && rng.chance(4, 5) {
                    forced.push(Op::RegisterHelper { key: KEY_PROBE_STACK, hid: H_PROBE_STACK });
                    forced.push(Op::RegisterHelper { key: KEY_PROBE_SLOT, hid: H_PROBE_SLOT });
                    forced.push(Op::RegisterHelper { key: KEY_PROBE_R1, hid: H_PROBE_R1 });
                }
            }
        }
    }
    sc
}

/// A packet offset in 0..=max, biased towards the places where an encoding changes size.
fn pick_pkt_index(rng: &mut Rng, max: usize) -> usize {
    let marks = [0usize, 0x7f, 0x80, 0xff, 0x100, 0x7fff, 0x8000, 0xffff, 0x10000];
    let usable: Vec<usize> = marks.iter().copied().filter(|m| *m <= max).collect();
    if max > 64 && rng.chance(2, 3) {
        let m = *rng.pick(&usable);
        let lo = m.saturating_sub(4);
        let hi = (m + 4).min(max);
        return rng.range(lo as u64, hi as u64) as usize;
    }
    rng.below(max as u64 + 1) as usize
}

fn gen_new(rng: &mut Rng, sc: &Scenario, offsets: &[(usize, usize)]) -> Op {
    let pid = if rng.chance(3, 10) { None } else { Some(rng.below(sc.progs.len() as u64) as usize) };
    let (doff, eoff) = match pid.and_then(|p| sc.progs[p].offsets) {
        Some(o) => o,
        None => *rng.pick(offsets),
    };
    Op::New { pid, doff, eoff }
}

#[derive(Default)]
struct Past {
    loaded: Vec<usize>,
    compiled: Vec<(Engine, usize)>,
}

fn gen_pkt(rng: &mut Rng, sc: &Scenario, m: &Model) -> usize {
    let min_pkt = m.prog.map(|p| sc.progs[p].min_pkt).unwrap_or(0);
    let cands: Vec<usize> = (0..sc.packets.len()).filter(|i| sc.packets[*i].len() >= min_pkt || !sc.kind.has_packet()).collect();
    if cands.is_empty() {
        0
    } else {
        *rng.pick(&cands)
    }
}

fn gen_set_program(rng: &mut Rng, sc: &Scenario, m: &Model, offsets: &[(usize, usize)], past: &Past) -> Op {
    let mut pid = rng.below(sc.progs.len() as u64) as usize;
    // prefer a program different from the loaded / compiled one
    for _ in 0..3 {
        let same = Some(pid) == m.prog || m.jit.as_ref().map(|c| c.pid) == Some(pid) || m.cl.as_ref().map(|c| c.pid) == Some(pid);
        if !same {
            break;
        }
        pid = rng.below(sc.progs.len() as u64) as usize;
    }
    // ... or go back to one this VM had before (A, B, A), preferably one it had compiled
    if rng.chance(3, 10) {
        let back: Vec<usize> = past.compiled.iter().map(|c| c.1).chain(past.loaded.iter().copied()).filter(|p| Some(*p) != m.prog).collect();
        if !back.is_empty() {
            pid = *rng.pick(&back[..back.len().min(past.compiled.len().max(1) * 2).max(1)]);
        }
    }
    let (doff, eoff) = match sc.progs[pid].offsets {
        Some(o) => o,
        None => *rng.pick(offsets),
    };
    // rarely, on the fixed-metadata VM: offsets no buffer can be built for (the sum overflows). The
    // unchanged code panics there (the run is abandoned); an implementation that reports an error
    // instead must leave the VM as it was.
    if sc.kind == Kind::Fixed && sc.progs[pid].offsets.is_none() && sc.progs[pid].safe() && rng.chance(1, 150) {
        return Op::SetProgram { pid, doff: usize::MAX - 3, eoff: *rng.pick(&[0usize, 8, usize::MAX - 20]) };
    }
    Op::SetProgram { pid, doff, eoff }
}

fn gen_register_helper(rng: &mut Rng, mode: Prop, sc: &Scenario, m: &Model, past: &Past) -> Op {
    // often: replace the function behind a key that the loaded program, or one compiled earlier, calls
    if rng.chance(2, 5) {
        let mut keys: Vec<u32> = Vec::new();
        for p in m.prog.iter().copied().chain(past.compiled.iter().map(|c| c.1)) {
            for k in helper_keys(&sc.progs[p].bytes) {
                if MIXER_KEYS.contains(&k) && !keys.contains(&k) {
                    keys.push(k);
                }
            }
        }
        if !keys.is_empty() {
            let key = *rng.pick(&keys);
            let cur = m.helpers.get(&key).copied();
            let mut hid = rng.range(H_MIX0 as u64, H_MIX3 as u64) as u8;
            if Some(hid) == cur {
                hid = (hid + 1) % (H_MIX3 + 1);
            }
            return Op::RegisterHelper { key, hid };
        }
    }
    let probe_bias = if mode == Prop::C09 { 2 } else { 1 };
    match rng.below(6 + probe_bias * 3) {
        0..=5 => Op::RegisterHelper { key: *rng.pick(&MIXER_KEYS), hid: rng.range(H_MIX0 as u64, H_MIX3 as u64) as u8 },
        x => match x % 3 {
            0 => Op::RegisterHelper { key: KEY_PROBE_R1, hid: H_PROBE_R1 },
            1 => Op::RegisterHelper { key: KEY_PROBE_SLOT, hid: H_PROBE_SLOT },
            _ => Op::RegisterHelper { key: KEY_PROBE_STACK, hid: H_PROBE_STACK },
        },
    }
}

fn gen_exec(rng: &mut Rng, sc: &Scenario, m: &Model) -> Op {
    // mostly engines that have something to run; sometimes one that was never compiled
    let mut ew = [3u32, 1, 1];
    if m.jit.is_some() {
        ew[1] = 4;
    }
    if m.cl.is_some() {
        ew[2] = 3;
    }
    let engine = Engine::ALL[rng.weighted(&ew)];
    let min_pkt = m.prog.map(|p| sc.progs[p].min_pkt).unwrap_or(0);
    let cands: Vec<usize> = (0..sc.packets.len()).filter(|i| sc.packets[*i].len() >= min_pkt || !sc.kind.has_packet()).collect();
    let pkt = if cands.is_empty() { 0 } else { *rng.pick(&cands) };
    let mb = if sc.mbuffs.is_empty() { 0 } else { rng.below(sc.mbuffs.len() as u64) as usize };
    Op::Exec { engine, pkt, mb }
}

/// Advance the generator's model assuming the VM behaves as the property prescribes.
/// Returns whether the call is expected to succeed.
fn assume_correct(sc: &Scenario, gm: &mut Option<Model>, op: &Op, pending_veto: bool, pending_alloc: bool) -> bool {
    match op {
        Op::New { pid, doff, eoff } => {
            let ok = match pid {
                None => true,
                Some(p) => verifier_accepts(V_DEFAULT, &sc.progs[*p].bytes),
            };
            if ok {
                *gm = Some(Model::fresh(*pid, *doff, *eoff));
            }
            ok
        }
        Op::SetProgram { pid, doff, eoff } => {
            let m = gm.as_mut().unwrap();
            let ok = m.load_accepted(&sc.progs[*pid]) && !(pending_veto && m.verifier != V_DEFAULT) && !(sc.kind == Kind::Fixed && absurd_offsets(*doff, *eoff));
            if ok {
                m.prog = Some(*pid);
                if sc.kind == Kind::Fixed {
                    m.offsets = (*doff, *eoff);
                }
                if let Some(c) = m.jit.as_mut() {
                    c.current = false;
                }
                if let Some(c) = m.cl.as_mut() {
                    c.current = false;
                }
            }
            ok
        }
        Op::SetVerifier { vid } => {
            let m = gm.as_mut().unwrap();
            let ok = match m.prog {
                None => true,
                Some(p) => verifier_accepts(*vid, &sc.progs[p].bytes) && !(pending_veto && *vid != V_REJECT_ALL),
            };
            if ok {
                m.verifier = *vid;
            }
            ok
        }
        Op::RegisterHelper { key, hid } => {
            gm.as_mut().unwrap().helpers.insert(*key, *hid);
            true
        }
        Op::SetCalc { cid } => {
            gm.as_mut().unwrap().calc = Some(*cid);
            true
        }
        Op::JitCompile | Op::ClCompile => {
            let m = gm.as_mut().unwrap();
            let is_jit = *op == Op::JitCompile;
            let ok = match m.prog {
                None => false,
                Some(p) => {
                    let prog = &sc.progs[p];
                    let keys_ok = helper_keys(&prog.bytes).iter().all(|k| m.helpers.contains_key(k));
                    keys_ok && (is_jit || !prog.local_call) && !(is_jit && pending_alloc)
                }
            };
            if ok {
                let c = Some(Compiled { pid: m.prog.unwrap(), helpers: m.helpers.clone(), current: true });
                if is_jit {
                    m.jit = c;
                } else {
                    m.cl = c;
                }
            }
            ok
        }
        Op::Exec { .. } | Op::ArmVeto | Op::ArmAllocFail | Op::ArmMprotectFail | Op::Repeat { .. } => true,
    }
}
