//! histsim — API-history simulation of rbpf's four VM kinds against an abstract model and a
//! fresh single-use VM (DESIGN.md section 4). Decides C10 and the history facet of C09.
//!
//!   histsim run    --prop C10|C09 --seed S --start A --count N --out FILE [--hash-every K] [--max-secs T]
//!   histsim replay FILE
//!   histsim show   --prop P --seed S --index I

mod gen;
mod guard;
mod progs;
mod sim;
mod vmwrap;

use sim::*;
use simcore::json::{self, JsonValue};
use simcore::{mix, Rng};
use std::collections::{BTreeMap, BTreeSet};
use std::time::Instant;

#[global_allocator]
static ALLOC: guard::FaultAlloc = guard::FaultAlloc;

fn arg<'a>(args: &'a [String], name: &str) -> Option<&'a str> {
    args.iter().position(|a| a == name).and_then(|i| args.get(i + 1)).map(|s| s.as_str())
}

fn parse_prop(s: &str) -> Prop {
    match s {
        "C10" => Prop::C10,
        "C09" => Prop::C09,
        _ => {
            eprintln!("unknown property {}", s);
            std::process::exit(2);
        }
    }
}

fn scenario_for(mode: Prop, seed: u64, index: u64) -> Scenario {
    // C09 and C10 draw from different streams of the same VERIF_SEED
    let salt = match mode {
        Prop::C10 => 0,
        Prop::C09 => 0x0909_0909,
    };
    let mut rng = Rng::new(mix(seed ^ salt, index));
    gen::generate(&mut rng, mode)
}

/// Shrink the operation list (ddmin, then drop unreferenced programs) while the same violation
/// class persists.
fn minimise(sc: &Scenario, mode: Prop, class: &str) -> (Scenario, usize) {
    let mut budget = 1500usize;
    let start = budget;
    let base = sc.clone();
    // (bounded in time as well: a history with a 65 536-fold repetition costs up to a second per
    // evaluation; what is left when the time is up is reported as it stands)
    let t0 = std::time::Instant::now();
    let ops = simcore::ddmin(
        &sc.ops,
        |cand| {
            if t0.elapsed().as_secs() >= 25 {
                return false;
            }
            let mut c = base.clone();
            c.ops = cand.to_vec();
            let r = run_scenario(&c, mode, false);
            r.violation.map(|v| v.class == class).unwrap_or(false)
        },
        &mut budget,
    );
    let mut out = sc.clone();
    out.ops = ops;
    // compact the program pool: keep only referenced programs (and remap ids)
    let mut used: BTreeSet<usize> = BTreeSet::new();
    for op in &out.ops {
        match op {
            Op::New { pid: Some(p), .. } | Op::SetProgram { pid: p, .. } => {
                used.insert(*p);
            }
            _ => {}
        }
    }
    let remap: BTreeMap<usize, usize> = used.iter().enumerate().map(|(n, o)| (*o, n)).collect();
    let mut compact = out.clone();
    compact.progs = used.iter().map(|p| out.progs[*p].clone()).collect();
    for op in compact.ops.iter_mut() {
        match op {
            Op::New { pid: Some(p), .. } | Op::SetProgram { pid: p, .. } => *p = remap[p],
            _ => {}
        }
    }
    let r = run_scenario(&compact, mode, false);
    if r.violation.map(|v| v.class == class).unwrap_or(false) {
        out = compact;
    }
    (out, start - budget)
}

fn cmd_run(args: &[String]) -> i32 {
    let mode = parse_prop(arg(args, "--prop").unwrap_or("C10"));
    // the generator stream may differ from the oracle in force (used by the driver to find out
    // whether a crash seen by the C09 check is a C10 matter)
    let gen_mode = arg(args, "--gen").map(parse_prop).unwrap_or(mode);
    let seed: u64 = arg(args, "--seed").unwrap_or("1").parse().expect("--seed");
    let start: u64 = arg(args, "--start").unwrap_or("0").parse().expect("--start");
    let count: u64 = arg(args, "--count").unwrap_or("1000").parse().expect("--count");
    let out = arg(args, "--out").expect("--out FILE");
    let hash_every: u64 = arg(args, "--hash-every").unwrap_or("1").parse().expect("--hash-every");
    // alternatively: record the event-log hash of the first K runs of this range only
    let hash_first: Option<u64> = arg(args, "--hash-first").map(|v| v.parse().expect("--hash-first"));
    let max_secs: f64 = arg(args, "--max-secs").unwrap_or("0").parse().expect("--max-secs");
    let max_violations: usize = arg(args, "--max-violations").unwrap_or("12").parse().expect("--max-violations");
    let inflight = arg(args, "--inflight").map(|s| s.to_string());

    if let Some(p) = &inflight {
        guard::marker_open(p);
    }
    let t0 = Instant::now();
    let mut runs_done = 0u64;
    let mut counters = Counters::default();
    let mut states: BTreeSet<u64> = BTreeSet::new();
    let mut transitions: BTreeSet<u64> = BTreeSet::new();
    let mut sigs: BTreeSet<u64> = BTreeSet::new();
    let mut nontrivial = 0u64;
    let mut aborted = 0u64;
    let mut abort_reasons: BTreeMap<String, u64> = BTreeMap::new();
    let mut hashes: Vec<(u64, u64)> = Vec::new();
    let mut violations: Vec<JsonValue> = Vec::new();
    let mut violation_classes: BTreeMap<String, u64> = BTreeMap::new();
    let mut samples: Vec<JsonValue> = Vec::new();
    let mut kinds: BTreeMap<&'static str, u64> = BTreeMap::new();
    let mut total_ops = 0u64;

    for index in start..start + count {
        if max_secs > 0.0 && t0.elapsed().as_secs_f64() > max_secs {
            break;
        }
        // which run is in flight, for the driver, should this process die
        guard::mark_run(index);
        let sc = scenario_for(gen_mode, seed, index);
        *kinds.entry(sc.kind.name()).or_insert(0) += 1;
        total_ops += sc.ops.len() as u64;
        let res = run_scenario(&sc, mode, false);
        guard::mark_phase(guard::PHASE_IDLE); // from here on this process only does bookkeeping
        runs_done += 1;
        counters.merge(&res.counters);
        states.extend(res.states.iter());
        transitions.extend(res.transitions.iter());
        if res.nontrivial {
            nontrivial += 1;
            sigs.insert(res.history_sig);
        }
        if let Some(why) = &res.aborted {
            aborted += 1;
            let key: String = why.split(" at op ").next().unwrap_or("").chars().take(90).collect();
            *abort_reasons.entry(key).or_insert(0) += 1;
        }
        let want_hash = match hash_first {
            Some(k) => index - start < k,
            None => index % hash_every == 0,
        };
        // only clean runs take part in the determinism self-check: a run that ended in a violation
        // or was aborted may have seen address-dependent garbage (that is what is being reported)
        if want_hash && res.violation.is_none() && res.aborted.is_none() {
            hashes.push((index, res.log_hash));
        }
        if samples.len() < 2 && res.nontrivial && res.violation.is_none() {
            let traced = run_scenario(&sc, mode, true);
            let mut s = JsonValue::new_object();
            s["run_index"] = simcore::ju64(index);
            s["kind"] = sc.kind.name().into();
            s["programs"] = JsonValue::Array(sc.progs.iter().map(|p| format!("{}: {}", p.class.name(), progs::disasm(&p.bytes)).into()).collect());
            s["history"] = JsonValue::Array(traced.trace.iter().map(|l| l.as_str().into()).collect());
            samples.push(s);
        }
        if let Some(v) = &res.violation {
            let n = violation_classes.entry(v.class.clone()).or_insert(0);
            *n += 1;
            if *n == 1 {
                // minimise the first violation of each class, then confirm it replays
                let (mut min_sc, evals) = minimise(&sc, mode, &v.class);
                let mut r1 = run_scenario(&min_sc, mode, true);
                let mut r2 = run_scenario(&min_sc, mode, true);
                let stable = |r: &RunResult| r.violation.as_ref().map(|x| x.class == v.class).unwrap_or(false);
                let mut minimisation_unstable = false;
                if !stable(&r1) || !stable(&r2) {
                    // the violation involves address-dependent garbage and does not survive shrinking
                    // reliably: report the history as it was generated
                    minimisation_unstable = true;
                    min_sc = sc.clone();
                    r1 = run_scenario(&min_sc, mode, true);
                    r2 = run_scenario(&min_sc, mode, true);
                    if r1.violation.is_none() {
                        r1.violation = Some(v.clone());
                    }
                }
                let mut rep = scenario_to_replay(&min_sc, mode, seed, index, &r1);
                rep["minimisation_unstable"] = minimisation_unstable.into();
                rep["minimised_from_ops"] = sc.ops.len().into();
                rep["minimiser_evaluations"] = evals.into();
                rep["replays_identically_in_process"] = (r1.log_hash == r2.log_hash && r1.violation.as_ref().map(|x| &x.class) == r2.violation.as_ref().map(|x| &x.class)).into();
                rep["history_kinds"] = JsonValue::Array(min_sc.ops.iter().map(|o| o.kind_name().into()).collect());
                violations.push(rep);
            }
            if violation_classes.values().sum::<u64>() as usize >= max_violations {
                break;
            }
        }
    }

    guard::mark_phase(guard::PHASE_IDLE);
    let mut o = JsonValue::new_object();
    o["prop"] = mode.name().into();
    o["seed"] = simcore::ju64(seed);
    o["start"] = simcore::ju64(start);
    o["count"] = simcore::ju64(count);
    o["runs_done"] = simcore::ju64(runs_done);
    o["total_ops"] = simcore::ju64(total_ops);
    o["nontrivial_runs"] = simcore::ju64(nontrivial);
    o["aborted_runs"] = simcore::ju64(aborted);
    let mut ar = JsonValue::new_object();
    for (k, v) in &abort_reasons {
        ar[k.as_str()] = simcore::ju64(*v);
    }
    o["abort_reasons"] = ar;
    let mut cj = JsonValue::new_object();
    for (k, v) in &counters.map {
        cj[*k] = simcore::ju64(*v);
    }
    for (k, v) in &counters.dynmap {
        cj[k.as_str()] = simcore::ju64(*v);
    }
    cj["page_allocs_seen"] = simcore::ju64(guard::PAGE_ALLOCS_SEEN.load(std::sync::atomic::Ordering::Relaxed));
    o["counters"] = cj;
    let mut kj = JsonValue::new_object();
    for (k, v) in &kinds {
        kj[*k] = simcore::ju64(*v);
    }
    o["kinds"] = kj;
    o["states"] = JsonValue::Array(states.iter().map(|s| simcore::ju64(*s)).collect());
    o["transitions"] = JsonValue::Array(transitions.iter().map(|s| simcore::ju64(*s)).collect());
    o["history_sigs"] = JsonValue::Array(sigs.iter().map(|s| simcore::ju64(*s)).collect());
    o["hashes"] = JsonValue::Array(hashes.iter().map(|(i, h)| json::array![simcore::ju64(*i), simcore::ju64(*h)]).collect());
    let mut vc = JsonValue::new_object();
    for (k, v) in &violation_classes {
        vc[k.as_str()] = simcore::ju64(*v);
    }
    o["violation_classes"] = vc;
    o["violations"] = JsonValue::Array(violations);
    o["samples"] = JsonValue::Array(samples);
    o["wall_s"] = t0.elapsed().as_secs_f64().into();
    std::fs::write(out, json::stringify_pretty(o, 1)).expect("write out");
    guard::marker_done();
    0
}

fn cmd_replay(args: &[String]) -> i32 {
    let path = match args.get(2) {
        Some(p) => p,
        None => {
            eprintln!("usage: histsim replay FILE");
            return 2;
        }
    };
    let text = match std::fs::read_to_string(path) {
        Ok(t) => t,
        Err(e) => {
            eprintln!("cannot read {}: {}", path, e);
            return 2;
        }
    };
    let v = match json::parse(&text) {
        Ok(v) => v,
        Err(e) => {
            eprintln!("bad replay file: {}", e);
            return 2;
        }
    };
    let mode = parse_prop(v["property"].as_str().unwrap_or("C10"));
    let sc = match Scenario::from_json(&v["scenario"]) {
        Some(s) => s,
        None => {
            eprintln!("bad scenario in replay file");
            return 2;
        }
    };
    let res = run_scenario(&sc, mode, true);
    for l in &res.trace {
        println!("{}", l);
    }
    let rec_class = v["violation"]["class"].as_str().unwrap_or("");
    let rec_hash = simcore::pu64(&v["log_hash"]).unwrap_or(0);
    match &res.violation {
        Some(viol) => {
            let same = viol.class == rec_class && res.log_hash == rec_hash;
            println!("replay: violation class '{}' (recorded '{}'), event-log hash {} (recorded {}): {}", viol.class, rec_class, res.log_hash, rec_hash, if same { "REPRODUCED EXACTLY" } else if viol.class == rec_class { "same violation, different event log" } else { "DIFFERENT violation" });
            println!("VIOLATION property={} replay={}", mode.name(), path);
            1
        }
        None => {
            println!("replay: no violation on this tree (recorded '{}'){}", rec_class, res.aborted.map(|a| format!("; run aborted: {}", a)).unwrap_or_default());
            0
        }
    }
}

fn cmd_show(args: &[String]) -> i32 {
    let mode = parse_prop(arg(args, "--prop").unwrap_or("C10"));
    let seed: u64 = arg(args, "--seed").unwrap_or("1").parse().expect("--seed");
    let index: u64 = arg(args, "--index").unwrap_or("0").parse().expect("--index");
    let mut sc = scenario_for(mode, seed, index);
    if let Some(t) = arg(args, "--truncate") {
        sc.ops.truncate(t.parse().expect("--truncate"));
    }
    if args.iter().any(|a| a == "--json-only") {
        // scenario only, without executing it (used by the driver after a worker death)
        let mut o = JsonValue::new_object();
        o["engine"] = "histsim".into();
        o["property"] = mode.name().into();
        o["verif_seed"] = simcore::ju64(seed);
        o["run_index"] = simcore::ju64(index);
        o["history_kinds"] = JsonValue::Array(sc.ops.iter().map(|o| o.kind_name().into()).collect());
        o["scenario"] = sc.to_json();
        println!("{}", json::stringify_pretty(o, 1));
        return 0;
    }
    let res = run_scenario(&sc, mode, true);
    println!("kind {} | {} programs | {} packets | {} ops", sc.kind.name(), sc.progs.len(), sc.packets.len(), sc.ops.len());
    for (i, p) in sc.progs.iter().enumerate() {
        println!("  prog#{} {} tag {}: {}", i, p.class.name(), p.tag, progs::disasm(&p.bytes));
    }
    for l in &res.trace {
        println!("{}", l);
    }
    println!("log_hash {} nontrivial {} aborted {:?}", res.log_hash, res.nontrivial, res.aborted);
    if args.iter().any(|a| a == "--json") {
        println!("{}", json::stringify_pretty(scenario_to_replay(&sc, mode, seed, index, &res), 1));
    }
    0
}

fn main() {
    let args: Vec<String> = std::env::args().collect();
    // panics inside VM calls are outcomes, not noise
    // (a panic in the harness's own code is a harness error: say where)
    std::panic::set_hook(Box::new(|info| {
        if let Some(l) = info.location() {
            if !l.file().contains("/repo/") && !l.file().contains("rbpf") {
                eprintln!("harness panic at {}:{}: {}", l.file(), l.line(), info);
            }
        }
    }));
    guard::install_signal_handlers();
    if let Some(m) = arg(&args, "--max-ops") {
        gen::MAX_OPS.store(m.parse().expect("--max-ops"), std::sync::atomic::Ordering::Relaxed);
    }
    let code = match args.get(1).map(|s| s.as_str()) {
        Some("run") => cmd_run(&args),
        Some("replay") => cmd_replay(&args),
        Some("show") => cmd_show(&args),
        _ => {
            eprintln!("usage: histsim run|replay|show ...");
            2
        }
    };
    std::process::exit(code);
}
