//! Uniform wrapper over the four real VM structs, plus the caller-supplied callbacks (verifiers,
//! helpers, stack-usage calculator) through which the simulator observes and injects.

use crate::guard::{guarded, Guarded};
use crate::progs::Kind;
use rbpf::lib::Error;
use std::any::Any;
use std::cell::RefCell;

#[derive(Clone, Copy, PartialEq, Eq, Debug, Hash, PartialOrd, Ord)]
pub enum Engine {
    Interp,
    Jit,
    Cl,
}

impl Engine {
    pub fn name(self) -> &'static str {
        match self {
            Engine::Interp => "interp",
            Engine::Jit => "jit",
            Engine::Cl => "cranelift",
        }
    }
    pub fn parse(s: &str) -> Option<Engine> {
        Some(match s {
            "interp" => Engine::Interp,
            "jit" => Engine::Jit,
            "cranelift" => Engine::Cl,
            _ => return None,
        })
    }
    pub const ALL: [Engine; 3] = [Engine::Interp, Engine::Jit, Engine::Cl];
}

/// Outcome of one API call, as a value.
#[derive(Clone, Debug, PartialEq, Eq)]
pub enum Outcome {
    Ok(u64),
    Err(String),
    Panic(String),
    Signal(i32),
}

impl Outcome {
    pub fn is_ok(&self) -> bool {
        matches!(self, Outcome::Ok(_))
    }
    pub fn is_err(&self) -> bool {
        matches!(self, Outcome::Err(_))
    }
    pub fn code(&self) -> u8 {
        match self {
            Outcome::Ok(_) => 0,
            Outcome::Err(_) => 1,
            Outcome::Panic(_) => 2,
            Outcome::Signal(_) => 3,
        }
    }
    pub fn short(&self) -> String {
        match self {
            Outcome::Ok(v) => format!("Ok({:#x})", v),
            Outcome::Err(e) => format!("Err({})", e.lines().next().unwrap_or("")),
            Outcome::Panic(p) => format!("Panic({})", p.lines().next().unwrap_or("")),
            Outcome::Signal(s) => format!("Signal({})", s),
        }
    }
    /// Same class of outcome (value compared only for Ok).
    pub fn same_class(&self, o: &Outcome) -> bool {
        self.code() == o.code()
    }
}

fn conv<T>(g: Guarded<Result<T, Error>>, f: impl FnOnce(T) -> u64) -> Outcome {
    match g {
        Guarded::Done(Ok(v)) => Outcome::Ok(f(v)),
        Guarded::Done(Err(e)) => Outcome::Err(e.to_string()),
        Guarded::Panic(p) => Outcome::Panic(p),
        Guarded::Signal(s) => Outcome::Signal(s),
    }
}

// ---------------------------------------------------------------------------------------------
// Simulator-owned state the callbacks consult (one OS thread => thread-local)
// ---------------------------------------------------------------------------------------------

#[derive(Default)]
pub struct SimTls {
    /// (vid, hash of the bytes shown, length shown)
    pub verifier_log: Vec<(u8, u64, usize)>,
    /// armed veto: the next harness-verifier call returns Err whatever the program
    pub veto_armed: bool,
    pub veto_fired: u64,
    /// (hid, args) of mixer helpers
    pub helper_log: Vec<(u8, [u64; 5])>,
    /// (value, tag of the calling program)
    pub probe_r1: Option<(u64, u64)>,
    pub probe_slot: Option<(u64, u64, u64)>,
    pub probe_stack: Option<(u64, u64)>,
    pub calc_calls: u64,
    /// hash of the bytes a harness verifier has rejected during the API call in progress
    pub rejected: Option<u64>,
    /// consultations of the stack-usage calculator about exactly those bytes, after the rejection
    pub calc_after_rejection: u64,
    /// the execution in progress: (address of the AnyVm, engine, packet, metadata buffer) - for the
    /// helper that re-enters the very same VM
    pub cur_exec: Option<(usize, u8, Buf, Buf)>,
    pub reenter_depth: u32,
}

thread_local! {
    pub static TLS: RefCell<SimTls> = RefCell::new(SimTls::default());
}

pub fn tls<R>(f: impl FnOnce(&mut SimTls) -> R) -> R {
    TLS.with(|t| f(&mut t.borrow_mut()))
}

// ---- verifiers -------------------------------------------------------------------------------

pub const V_DEFAULT: u8 = 0; // the VM's built-in verifier (only in force until replaced)
pub const V_DEFAULT_EQ: u8 = 1; // harness fn equivalent to the built-in one
pub const V_ACCEPT_ALL: u8 = 2;
pub const V_REJECT_ALL: u8 = 3;
pub const V_TAG_EVEN: u8 = 4;
pub const V_TAG_ODD: u8 = 5;
pub const V_NAMES: [&str; 6] = ["default", "default_eq", "accept_all", "reject_all", "tag_even", "tag_odd"];

fn verr(msg: &str) -> Result<(), Error> {
    Err(Error::other(format!("[harness verifier] {}", msg)))
}

/// The verifier is about to answer Err for these bytes.
fn rejecting(prog: &[u8]) {
    tls(|t| t.rejected = Some(simcore::hash_bytes(prog)));
}

fn vlog(vid: u8, prog: &[u8]) -> bool {
    tls(|t| {
        t.verifier_log.push((vid, simcore::hash_bytes(prog), prog.len()));
        if t.veto_armed {
            t.veto_armed = false;
            t.veto_fired += 1;
            true
        } else {
            false
        }
    })
}

/// What the built-in verifier says about `prog`, obtained from the real code (it is private, so
/// it is reached through `EbpfVmMbuff::new`). Deterministic.
pub fn default_verifier_accepts(prog: &[u8]) -> bool {
    let p = prog.to_vec();
    matches!(std::panic::catch_unwind(move || rbpf::EbpfVmMbuff::new(Some(&p)).is_ok()), Ok(true))
}

fn v_default_eq(prog: &[u8]) -> Result<(), Error> {
    if vlog(V_DEFAULT_EQ, prog) {
        rejecting(prog);
        return verr("injected veto");
    }
    match rbpf::EbpfVmMbuff::new(Some(prog)) {
        Ok(_) => Ok(()),
        Err(e) => {
            rejecting(prog);
            Err(e)
        }
    }
}
fn v_accept_all(prog: &[u8]) -> Result<(), Error> {
    if vlog(V_ACCEPT_ALL, prog) {
        rejecting(prog);
        return verr("injected veto");
    }
    Ok(())
}
fn v_reject_all(prog: &[u8]) -> Result<(), Error> {
    vlog(V_REJECT_ALL, prog);
    rejecting(prog);
    verr("reject-all")
}
fn v_tag_even(prog: &[u8]) -> Result<(), Error> {
    if vlog(V_TAG_EVEN, prog) {
        rejecting(prog);
        return verr("injected veto");
    }
    if prog.len() >= 8 && prog[4] % 2 == 0 {
        Ok(())
    } else {
        rejecting(prog);
        verr("tag is not even")
    }
}
fn v_tag_odd(prog: &[u8]) -> Result<(), Error> {
    if vlog(V_TAG_ODD, prog) {
        rejecting(prog);
        return verr("injected veto");
    }
    if prog.len() >= 8 && prog[4] % 2 == 1 {
        Ok(())
    } else {
        rejecting(prog);
        verr("tag is not odd")
    }
}

pub fn verifier_fn(vid: u8) -> rbpf::Verifier {
    match vid {
        V_DEFAULT_EQ => v_default_eq,
        V_ACCEPT_ALL => v_accept_all,
        V_REJECT_ALL => v_reject_all,
        V_TAG_EVEN => v_tag_even,
        V_TAG_ODD => v_tag_odd,
        _ => panic!("no fn for verifier id {}", vid),
    }
}

/// Would verifier `vid` accept these bytes (absent a veto)? Known by construction for harness
/// verifiers; asked of the real code for the default one.
pub fn verifier_accepts(vid: u8, prog: &[u8]) -> bool {
    match vid {
        V_DEFAULT | V_DEFAULT_EQ => default_verifier_accepts(prog),
        V_ACCEPT_ALL => true,
        V_REJECT_ALL => false,
        V_TAG_EVEN => prog.len() >= 8 && prog[4] % 2 == 0,
        V_TAG_ODD => prog.len() >= 8 && prog[4] % 2 == 1,
        _ => unreachable!(),
    }
}

// ---- helpers ---------------------------------------------------------------------------------

pub const H_MIX0: u8 = 0;
pub const H_MIX1: u8 = 1;
pub const H_MIX2: u8 = 2;
pub const H_MIX3: u8 = 3;
pub const H_PROBE_R1: u8 = 4;
pub const H_PROBE_SLOT: u8 = 5;
pub const H_PROBE_STACK: u8 = 6;
pub const H_NAMES: [&str; 7] = ["mix0", "mix1", "mix2", "mix3", "probe_r1", "probe_slot", "probe_stack"];

pub fn mix_value(hid: u8, a: [u64; 5]) -> u64 {
    let mut h = simcore::Fnv::new();
    h.byte(hid);
    for x in a {
        h.u64(x);
    }
    h.finish() & 0x00ff_ffff_ffff_ffff
}

/// Every harness helper ends by overwriting the caller-saved scratch registers r10 and r11, as any
/// C function is entitled to: a legal but unusual behaviour at the helper seam (native code that
/// keeps a value of its own in a caller-saved register across the call loses it, deterministically).
#[inline(always)]
fn clobber_scratch() {
    unsafe {
        std::arch::asm!("mov r10, 0x5a5a5a5a5a5a5a5a", "mov r11, r10", out("r10") _, out("r11") _, options(nomem, nostack));
    }
}

fn mixer(hid: u8, a: [u64; 5]) -> u64 {
    tls(|t| t.helper_log.push((hid, a)));
    let v = mix_value(hid, a);
    clobber_scratch();
    v
}
extern "C" fn h_mix0_body(a: u64, b: u64, c: u64, d: u64, e: u64) -> u64 {
    mixer(H_MIX0, [a, b, c, d, e])
}
extern "C" fn h_mix1_body(a: u64, b: u64, c: u64, d: u64, e: u64) -> u64 {
    mixer(H_MIX1, [a, b, c, d, e])
}
extern "C" fn h_mix2_body(a: u64, b: u64, c: u64, d: u64, e: u64) -> u64 {
    mixer(H_MIX2, [a, b, c, d, e])
}
extern "C" fn h_mix3_body(a: u64, b: u64, c: u64, d: u64, e: u64) -> u64 {
    mixer(H_MIX3, [a, b, c, d, e])
}
extern "C" fn h_probe_r1_body(a: u64, tag: u64, _c: u64, _d: u64, _e: u64) -> u64 {
    tls(|t| t.probe_r1 = Some((a, tag)));
    clobber_scratch();
    0
}
extern "C" fn h_probe_slot_body(r1: u64, doff: u64, eoff: u64, tag: u64, _e: u64) -> u64 {
    // native reads of the two slots of the buffer the program was given
    let (d, e) = unsafe {
        (
            ((r1.wrapping_add(doff)) as *const u64).read_unaligned(),
            ((r1.wrapping_add(eoff)) as *const u64).read_unaligned(),
        )
    };
    tls(|t| t.probe_slot = Some((d, e, tag)));
    clobber_scratch();
    0
}
/// third argument of the stack probe helper: "run another eBPF program before you return"
pub const REENTER: u64 = 0x5245;
/// ... "execute the very program that is calling you once more, on the same VM and engine, before
/// you return" (the VM types take `&self` for executions, except the fixed-metadata VM)
pub const REENTER_SAME: u64 = 0x5246;
/// ... "return the nesting depth times 0x11111111" (0 for an execution started by the harness)
pub const GET_SALT: u64 = 0x5347;

extern "C" fn h_probe_stack_body(p: u64, tag: u64, c: u64, _d: u64, _e: u64) -> u64 {
    if c == GET_SALT {
        return tls(|t| t.reenter_depth as u64 * 0x1111_1111);
    }
    let v = unsafe { (p as *const u64).read_unaligned() };
    tls(|t| t.probe_stack = Some((v, tag)));
    if c == REENTER_SAME {
        let cur = tls(|t| if t.reenter_depth == 0 { t.cur_exec } else { None });
        if let Some((vm, engine, pkt, mb)) = cur {
            tls(|t| t.reenter_depth += 1);
            // SAFETY of the experiment: the outer execution holds the VM through `&self` methods only
            // (the fixed-metadata VM, whose executions take `&mut self`, is left out)
            let vm = unsafe { &*(vm as *const AnyVm) };
            let engine = Engine::ALL[engine as usize];
            // (a panic of the nested execution must not cross this extern "C" frame)
            let _ = std::panic::catch_unwind(std::panic::AssertUnwindSafe(|| unsafe {
                let _ = match (vm, engine) {
                    (AnyVm::Mbuff(vm), Engine::Interp) => vm.execute_program(pkt.slice(), mb.slice()),
                    (AnyVm::Mbuff(vm), Engine::Jit) => vm.execute_program_jit(pkt.slice(), mb.slice()),
                    (AnyVm::Mbuff(vm), Engine::Cl) => vm.execute_program_cranelift(pkt.slice(), mb.slice()),
                    (AnyVm::Raw(vm), Engine::Interp) => vm.execute_program(pkt.slice()),
                    (AnyVm::Raw(vm), Engine::Jit) => vm.execute_program_jit(pkt.slice()),
                    (AnyVm::Raw(vm), Engine::Cl) => vm.execute_program_cranelift(pkt.slice()),
                    (AnyVm::NoData(vm), Engine::Interp) => vm.execute_program(),
                    (AnyVm::NoData(vm), Engine::Jit) => vm.execute_program_jit(),
                    (AnyVm::NoData(vm), Engine::Cl) => vm.execute_program_cranelift(),
                    (AnyVm::Fixed(_), _) => Ok(0),
                };
            }));
            tls(|t| t.reenter_depth -= 1);
        }
    }
    if c == REENTER {
        // A helper may itself run eBPF programs (rbpf's own documentation suggests helpers that do
        // real work): a second VM executes, under the interpreter, a program that stores to every
        // eighth slot of *its* stack while the calling program is suspended in this call.
        static PROG: std::sync::OnceLock<Vec<u8>> = std::sync::OnceLock::new();
        let prog = PROG.get_or_init(|| {
            let mut v = Vec::new();
            for k in 1..=64i16 {
                v.extend_from_slice(&crate::progs::ins(crate::progs::STDW_IMM, 10, 0, -8 * k, 0x7e7e_7e7e));
            }
            v.extend_from_slice(&crate::progs::ins(crate::progs::MOV64_IMM, 0, 0, 0, 0));
            v.extend_from_slice(&crate::progs::ins(crate::progs::EXIT, 0, 0, 0, 0));
            v
        });
        let _ = std::panic::catch_unwind(|| {
            if let Ok(vm) = rbpf::EbpfVmNoData::new(Some(prog)) {
                let _ = vm.execute_program();
            }
        });
    }
    clobber_scratch();
    0
}

// The x86-64 JIT calls helpers with a stack pointer that is 8 bytes off the 16-byte alignment of
// the C ABI (an observation outside the claimed properties, DESIGN.md 12.3). The harness helpers
// must not depend on that either way: each is entered through a few instructions that align the
// stack before the Rust body runs.
macro_rules! aligned_entry {
    ($tramp:ident, $body:ident) => {
        std::arch::global_asm!(
            concat!(".globl ", stringify!($tramp)),
            concat!(stringify!($tramp), ":"),
            "push rbp",
            "mov rbp, rsp",
            "and rsp, -16",
            "call {body}",
            "mov rsp, rbp",
            "pop rbp",
            "ret",
            body = sym $body,
        );
        extern "C" {
            fn $tramp(a: u64, b: u64, c: u64, d: u64, e: u64) -> u64;
        }
    };
}
aligned_entry!(histsim_h_mix0, h_mix0_body);
aligned_entry!(histsim_h_mix1, h_mix1_body);
aligned_entry!(histsim_h_mix2, h_mix2_body);
aligned_entry!(histsim_h_mix3, h_mix3_body);
aligned_entry!(histsim_h_probe_r1, h_probe_r1_body);
aligned_entry!(histsim_h_probe_slot, h_probe_slot_body);
aligned_entry!(histsim_h_probe_stack, h_probe_stack_body);

pub fn helper_fn(hid: u8) -> rbpf::Helper {
    // rbpf's own JIT calls `fn(u64, u64, u64, u64, u64) -> u64` with the C calling convention; the
    // same identification is made here for the entry stubs.
    let f: unsafe extern "C" fn(u64, u64, u64, u64, u64) -> u64 = match hid {
        H_MIX0 => histsim_h_mix0,
        H_MIX1 => histsim_h_mix1,
        H_MIX2 => histsim_h_mix2,
        H_MIX3 => histsim_h_mix3,
        H_PROBE_R1 => histsim_h_probe_r1,
        H_PROBE_SLOT => histsim_h_probe_slot,
        H_PROBE_STACK => histsim_h_probe_stack,
        _ => panic!("no helper {}", hid),
    };
    unsafe { std::mem::transmute::<unsafe extern "C" fn(u64, u64, u64, u64, u64) -> u64, rbpf::Helper>(f) }
}

// ---- stack-usage calculators ------------------------------------------------------------------

pub const N_CALCS: u8 = 4;

/// Frame size the calculator `cid` reports for the function at `pc` of the program whose tag
/// byte is `tag`: calculators 1 and 3 depend on the *program*, so that a table (or a cache) kept
/// from an earlier program is visible.
pub fn calc_value(cid: u8, pc: usize, tag: u8) -> u16 {
    match cid {
        0 => 64,
        1 => 16 + 8 * (pc % 4) as u16 + 32 * (tag % 5) as u16,
        2 => 0,
        _ => 128 + (pc as u16 % 7) * 16 + (tag as u16 % 3) * 8,
    }
}

/// A second calculator function: the odd-numbered calculators are installed as THIS function (with
/// their number as data), the even-numbered ones as `calc_fn`; for the same data the two give
/// different answers, so a VM that swaps the data but keeps the old function is told apart.
type CalcFn = fn(&[u8], usize, &mut dyn Any) -> u16;

fn calc_fn_alt(prog: &[u8], pc: usize, data: &mut dyn Any) -> u16 {
    calc_fn(prog, pc, data) + 8
}

fn calc_fn(prog: &[u8], pc: usize, data: &mut dyn Any) -> u16 {
    // rbpf hands the callback its `Box<dyn Any>` itself (as `&mut dyn Any`), not the boxed value
    let cid = match data.downcast_ref::<u8>() {
        Some(c) => *c,
        None => *data.downcast_ref::<Box<dyn Any>>().and_then(|b| b.downcast_ref::<u8>()).expect("calculator data"),
    };
    tls(|t| {
        t.calc_calls += 1;
        if t.rejected == Some(simcore::hash_bytes(prog)) {
            t.calc_after_rejection += 1;
        }
    });
    calc_value(cid, pc, if prog.len() >= 8 { prog[4] } else { 0 })
}

// ---------------------------------------------------------------------------------------------
// The VM wrapper
// ---------------------------------------------------------------------------------------------

pub enum AnyVm {
    Mbuff(rbpf::EbpfVmMbuff<'static>),
    Fixed(rbpf::EbpfVmFixedMbuff<'static>),
    Raw(rbpf::EbpfVmRaw<'static>),
    NoData(rbpf::EbpfVmNoData<'static>),
}

/// A caller-owned buffer handed to the VM by address; the arena that owns it outlives the VM.
#[derive(Clone, Copy)]
pub struct Buf {
    pub ptr: *mut u8,
    pub len: usize,
}

impl Buf {
    pub fn of(v: &mut Vec<u8>) -> Buf {
        Buf { ptr: v.as_mut_ptr(), len: v.len() }
    }
    pub fn empty_at(ptr: *mut u8) -> Buf {
        Buf { ptr, len: 0 }
    }
    #[allow(clippy::mut_from_ref)]
    unsafe fn slice(&self) -> &'static mut [u8] {
        std::slice::from_raw_parts_mut(self.ptr, self.len)
    }
}

unsafe fn stat(p: &[u8]) -> &'static [u8] {
    std::slice::from_raw_parts(p.as_ptr(), p.len())
}

impl AnyVm {
    pub fn kind(&self) -> Kind {
        match self {
            AnyVm::Mbuff(_) => Kind::Mbuff,
            AnyVm::Fixed(_) => Kind::Fixed,
            AnyVm::Raw(_) => Kind::Raw,
            AnyVm::NoData(_) => Kind::NoData,
        }
    }

    /// `prog` must stay alive (arena) for as long as the VM.
    pub fn new(kind: Kind, prog: Option<&[u8]>, doff: usize, eoff: usize) -> Result<AnyVm, Outcome> {
        let prog: Option<&'static [u8]> = prog.map(|p| unsafe { stat(p) });
        crate::guard::guard_byte_allocs(kind == Kind::Fixed);
        let g = guarded(move || -> Result<AnyVm, Error> {
            Ok(match kind {
                Kind::Mbuff => AnyVm::Mbuff(rbpf::EbpfVmMbuff::new(prog)?),
                Kind::Fixed => AnyVm::Fixed(rbpf::EbpfVmFixedMbuff::new(prog, doff, eoff)?),
                Kind::Raw => AnyVm::Raw(rbpf::EbpfVmRaw::new(prog)?),
                Kind::NoData => AnyVm::NoData(rbpf::EbpfVmNoData::new(prog)?),
            })
        });
        crate::guard::guard_byte_allocs(false);
        match g {
            Guarded::Done(Ok(vm)) => Ok(vm),
            Guarded::Done(Err(e)) => Err(Outcome::Err(e.to_string())),
            Guarded::Panic(p) => Err(Outcome::Panic(p)),
            Guarded::Signal(s) => Err(Outcome::Signal(s)),
        }
    }

    pub fn set_program(&mut self, prog: &[u8], doff: usize, eoff: usize) -> Outcome {
        let prog: &'static [u8] = unsafe { stat(prog) };
        crate::guard::guard_byte_allocs(matches!(self, AnyVm::Fixed(_)));
        let o = conv(
            guarded(|| match self {
                AnyVm::Mbuff(vm) => vm.set_program(prog),
                AnyVm::Fixed(vm) => vm.set_program(prog, doff, eoff),
                AnyVm::Raw(vm) => vm.set_program(prog),
                AnyVm::NoData(vm) => vm.set_program(prog),
            }),
            |_| 0,
        );
        crate::guard::guard_byte_allocs(false);
        o
    }

    pub fn set_verifier(&mut self, vid: u8) -> Outcome {
        let f = verifier_fn(vid);
        conv(
            guarded(|| match self {
                AnyVm::Mbuff(vm) => vm.set_verifier(f),
                AnyVm::Fixed(vm) => vm.set_verifier(f),
                AnyVm::Raw(vm) => vm.set_verifier(f),
                AnyVm::NoData(vm) => vm.set_verifier(f),
            }),
            |_| 0,
        )
    }

    pub fn register_helper(&mut self, key: u32, hid: u8) -> Outcome {
        let f = helper_fn(hid);
        conv(
            guarded(|| match self {
                AnyVm::Mbuff(vm) => vm.register_helper(key, f),
                AnyVm::Fixed(vm) => vm.register_helper(key, f),
                AnyVm::Raw(vm) => vm.register_helper(key, f),
                AnyVm::NoData(vm) => vm.register_helper(key, f),
            }),
            |_| 0,
        )
    }

    pub fn set_calc(&mut self, cid: u8) -> Outcome {
        conv(
            guarded(|| {
                let data: Box<dyn Any> = Box::new(cid);
                match self {
                    AnyVm::Mbuff(vm) => vm.set_stack_usage_calculator((if cid % 2 == 1 { calc_fn_alt as CalcFn } else { calc_fn as CalcFn }), data),
                    AnyVm::Fixed(vm) => vm.set_stack_usage_calculator((if cid % 2 == 1 { calc_fn_alt as CalcFn } else { calc_fn as CalcFn }), data),
                    AnyVm::Raw(vm) => vm.set_stack_usage_calculator((if cid % 2 == 1 { calc_fn_alt as CalcFn } else { calc_fn as CalcFn }), data),
                    AnyVm::NoData(vm) => vm.set_stack_usage_calculator((if cid % 2 == 1 { calc_fn_alt as CalcFn } else { calc_fn as CalcFn }), data),
                }
            }),
            |_| 0,
        )
    }

    pub fn jit_compile(&mut self) -> Outcome {
        conv(
            guarded(|| match self {
                AnyVm::Mbuff(vm) => vm.jit_compile(),
                AnyVm::Fixed(vm) => vm.jit_compile(),
                AnyVm::Raw(vm) => vm.jit_compile(),
                AnyVm::NoData(vm) => vm.jit_compile(),
            }),
            |_| 0,
        )
    }

    pub fn cl_compile(&mut self) -> Outcome {
        conv(
            guarded(|| match self {
                AnyVm::Mbuff(vm) => vm.cranelift_compile(),
                AnyVm::Fixed(vm) => vm.cranelift_compile(),
                AnyVm::Raw(vm) => vm.cranelift_compile(),
                AnyVm::NoData(vm) => vm.cranelift_compile(),
            }),
            |_| 0,
        )
    }

    /// Execute on caller-owned buffers. `mbuff` is only used by the Mbuff kind; `pkt` is ignored
    /// by NoData.
    pub fn exec(&mut self, engine: Engine, pkt: Buf, mbuff: Buf) -> Outcome {
        let me = self as *const AnyVm as usize;
        tls(|t| {
            t.cur_exec = Some((me, engine as u8, pkt, mbuff));
            t.reenter_depth = 0;
        });
        let r = self.exec_inner(engine, pkt, mbuff);
        tls(|t| {
            t.cur_exec = None;
            t.reenter_depth = 0;
        });
        r
    }

    fn exec_inner(&mut self, engine: Engine, pkt: Buf, mbuff: Buf) -> Outcome {
        conv(
            guarded(|| unsafe {
                match (self, engine) {
                    (AnyVm::Mbuff(vm), Engine::Interp) => vm.execute_program(pkt.slice(), mbuff.slice()),
                    (AnyVm::Mbuff(vm), Engine::Jit) => vm.execute_program_jit(pkt.slice(), mbuff.slice()),
                    (AnyVm::Mbuff(vm), Engine::Cl) => vm.execute_program_cranelift(pkt.slice(), mbuff.slice()),
                    (AnyVm::Fixed(vm), Engine::Interp) => vm.execute_program(pkt.slice()),
                    (AnyVm::Fixed(vm), Engine::Jit) => vm.execute_program_jit(pkt.slice()),
                    (AnyVm::Fixed(vm), Engine::Cl) => vm.execute_program_cranelift(pkt.slice()),
                    (AnyVm::Raw(vm), Engine::Interp) => vm.execute_program(pkt.slice()),
                    (AnyVm::Raw(vm), Engine::Jit) => vm.execute_program_jit(pkt.slice()),
                    (AnyVm::Raw(vm), Engine::Cl) => vm.execute_program_cranelift(pkt.slice()),
                    (AnyVm::NoData(vm), Engine::Interp) => vm.execute_program(),
                    (AnyVm::NoData(vm), Engine::Jit) => vm.execute_program_jit(),
                    (AnyVm::NoData(vm), Engine::Cl) => vm.execute_program_cranelift(),
                }
            }),
            |v| v,
        )
    }
}
