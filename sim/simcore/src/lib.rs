//! Shared pieces of the simulators: the one PRNG every choice of a run is drawn from,
//! an address-free event-log hasher, delta debugging, and a few JSON helpers.

pub use json;

/// SplitMix64 step; used to derive per-run seeds and to seed xoshiro.
#[inline]
pub fn splitmix64(state: &mut u64) -> u64 {
    *state = state.wrapping_add(0x9E37_79B9_7F4A_7C15);
    let mut z = *state;
    z = (z ^ (z >> 30)).wrapping_mul(0xBF58_476D_1CE4_E5B9);
    z = (z ^ (z >> 27)).wrapping_mul(0x94D0_49BB_1331_11EB);
    z ^ (z >> 31)
}

/// Per-run seed: a pure function of (VERIF_SEED, run_index), independent of worker count.
pub fn mix(seed: u64, run_index: u64) -> u64 {
    let mut s = seed ^ 0xD1B5_4A32_D192_ED03;
    let a = splitmix64(&mut s);
    let mut t = a ^ run_index.wrapping_mul(0x9E37_79B9_7F4A_7C15);
    splitmix64(&mut t)
}

/// xoshiro256** — every choice of a run is drawn from one instance of this.
#[derive(Clone, Debug)]
pub struct Rng {
    s: [u64; 4],
    pub draws: u64,
}

impl Rng {
    pub fn new(seed: u64) -> Rng {
        let mut sm = seed;
        let s = [
            splitmix64(&mut sm),
            splitmix64(&mut sm),
            splitmix64(&mut sm),
            splitmix64(&mut sm),
        ];
        Rng { s, draws: 0 }
    }
    #[inline]
    pub fn next_u64(&mut self) -> u64 {
        self.draws += 1;
        let result = self.s[1].wrapping_mul(5).rotate_left(7).wrapping_mul(9);
        let t = self.s[1] << 17;
        self.s[2] ^= self.s[0];
        self.s[3] ^= self.s[1];
        self.s[1] ^= self.s[2];
        self.s[0] ^= self.s[3];
        self.s[2] ^= t;
        self.s[3] = self.s[3].rotate_left(45);
        result
    }
    /// Uniform in 0..n (n > 0).
    #[inline]
    pub fn below(&mut self, n: u64) -> u64 {
        debug_assert!(n > 0);
        // multiply-shift; bias is irrelevant here and this keeps one draw per choice
        ((self.next_u64() as u128 * n as u128) >> 64) as u64
    }
    #[inline]
    pub fn range(&mut self, lo: u64, hi_incl: u64) -> u64 {
        lo + self.below(hi_incl - lo + 1)
    }
    #[inline]
    pub fn chance(&mut self, num: u64, den: u64) -> bool {
        self.below(den) < num
    }
    pub fn pick<'a, T>(&mut self, xs: &'a [T]) -> &'a T {
        &xs[self.below(xs.len() as u64) as usize]
    }
    /// Weighted choice; returns the index.
    pub fn weighted(&mut self, weights: &[u32]) -> usize {
        let total: u64 = weights.iter().map(|w| *w as u64).sum();
        debug_assert!(total > 0);
        let mut x = self.below(total);
        for (i, w) in weights.iter().enumerate() {
            if x < *w as u64 {
                return i;
            }
            x -= *w as u64;
        }
        weights.len() - 1
    }
}

/// 64-bit FNV-1a, used for event logs and state signatures (never fed an address).
#[derive(Clone, Copy, Debug)]
pub struct Fnv(pub u64);

impl Default for Fnv {
    fn default() -> Self {
        Fnv(0xcbf2_9ce4_8422_2325)
    }
}

impl Fnv {
    pub fn new() -> Fnv {
        Fnv::default()
    }
    #[inline]
    pub fn byte(&mut self, b: u8) {
        self.0 ^= b as u64;
        self.0 = self.0.wrapping_mul(0x0000_0100_0000_01B3);
    }
    pub fn bytes(&mut self, bs: &[u8]) {
        for b in bs {
            self.byte(*b);
        }
    }
    pub fn u64(&mut self, v: u64) {
        self.bytes(&v.to_le_bytes());
    }
    pub fn str(&mut self, s: &str) {
        self.bytes(s.as_bytes());
        self.byte(0xff);
    }
    pub fn finish(&self) -> u64 {
        // final avalanche so that short logs spread over the whole word
        let mut s = self.0;
        splitmix64(&mut s)
    }
}

pub fn hash_bytes(bs: &[u8]) -> u64 {
    let mut h = Fnv::new();
    h.bytes(bs);
    h.finish()
}

/// Delta debugging (ddmin) on a list. `fails(candidate)` returns true when the candidate still
/// shows the same violation class. Returns a 1-minimal list (within `budget` evaluations).
pub fn ddmin<T: Clone>(input: &[T], mut fails: impl FnMut(&[T]) -> bool, budget: &mut usize) -> Vec<T> {
    let mut cur: Vec<T> = input.to_vec();
    let mut n = 2usize;
    while cur.len() >= 2 && *budget > 0 {
        let chunk = cur.len().div_ceil(n);
        let mut reduced = false;
        // try complements (remove one chunk)
        let mut i = 0;
        while i * chunk < cur.len() {
            if *budget == 0 {
                break;
            }
            let lo = i * chunk;
            let hi = (lo + chunk).min(cur.len());
            let mut cand = Vec::with_capacity(cur.len() - (hi - lo));
            cand.extend_from_slice(&cur[..lo]);
            cand.extend_from_slice(&cur[hi..]);
            *budget -= 1;
            if !cand.is_empty() && fails(&cand) {
                cur = cand;
                n = (n - 1).max(2);
                reduced = true;
                break;
            }
            i += 1;
        }
        if !reduced {
            if n >= cur.len() {
                break;
            }
            n = (n * 2).min(cur.len());
        }
    }
    // final single-element sweep
    let mut i = 0;
    while i < cur.len() && cur.len() > 1 && *budget > 0 {
        let mut cand = cur.clone();
        cand.remove(i);
        *budget -= 1;
        if fails(&cand) {
            cur = cand;
        } else {
            i += 1;
        }
    }
    cur
}

pub fn hex(bs: &[u8]) -> String {
    let mut s = String::with_capacity(bs.len() * 2);
    for b in bs {
        s.push_str(&format!("{:02x}", b));
    }
    s
}

pub fn unhex(s: &str) -> Option<Vec<u8>> {
    if s.len() % 2 != 0 {
        return None;
    }
    let mut out = Vec::with_capacity(s.len() / 2);
    let b = s.as_bytes();
    for i in (0..b.len()).step_by(2) {
        let h = (b[i] as char).to_digit(16)?;
        let l = (b[i + 1] as char).to_digit(16)?;
        out.push((h * 16 + l) as u8);
    }
    Some(out)
}

/// u64 values are written to JSON as strings so that no precision is lost.
pub fn ju64(v: u64) -> json::JsonValue {
    json::JsonValue::String(format!("{}", v))
}

pub fn pu64(v: &json::JsonValue) -> Option<u64> {
    if let Some(s) = v.as_str() {
        s.parse().ok()
    } else {
        v.as_u64()
    }
}

#[cfg(test)]
mod tests {
    use super::*;
    #[test]
    fn rng_is_deterministic() {
        let mut a = Rng::new(mix(1, 7));
        let mut b = Rng::new(mix(1, 7));
        for _ in 0..100 {
            assert_eq!(a.next_u64(), b.next_u64());
        }
        assert_ne!(mix(1, 7), mix(1, 8));
        assert_ne!(mix(1, 7), mix(2, 7));
    }
    #[test]
    fn ddmin_minimises() {
        let v: Vec<u32> = (0..50).collect();
        let mut budget = 1000;
        let r = ddmin(&v, |c| c.contains(&7) && c.contains(&33), &mut budget);
        assert_eq!(r, vec![7, 33]);
    }
}
