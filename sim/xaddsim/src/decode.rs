//! Minimal x86-64 decoder: far enough to classify the one instruction that touched the monitored
//! page (load / store / read-modify-write), to see whether it carries a LOCK prefix, its operand
//! width, and — for the add / sub / xadd forms — the value of its source operand.
//! Anything it cannot classify is reported as `Unclassified` (executed as one indivisible step).

#[derive(Clone, Copy, PartialEq, Eq, Debug)]
pub enum Class {
    Load,
    Store,
    Rmw,
    Unclassified,
}

#[derive(Clone, Copy, Debug)]
pub struct Decoded {
    pub class: Class,
    pub lock: bool,
    /// implicitly locked (xchg with memory)
    pub implicit_lock: bool,
    pub width: u8,
    /// for add/sub/xadd forms: the value added (already negated for sub), truncated to `width`
    pub addend: Option<u64>,
    /// is this one of the forms a fetch-add is expected to compile to (add/sub/xadd)?
    pub add_form: bool,
    /// first opcode bytes after prefixes (for reach statistics)
    pub sig: [u8; 3],
}

fn trunc(v: u64, width: u8) -> u64 {
    match width {
        1 => v & 0xff,
        2 => v & 0xffff,
        4 => v & 0xffff_ffff,
        _ => v,
    }
}

/// `regs[i]` = value of general register i in hardware numbering (rax, rcx, rdx, rbx, rsp, rbp,
/// rsi, rdi, r8..r15).
pub fn decode(code: &[u8], regs: &[u64; 16]) -> Decoded {
    let mut d = Decoded { class: Class::Unclassified, lock: false, implicit_lock: false, width: 0, addend: None, add_form: false, sig: [0; 3] };
    let mut i = 0usize;
    let mut opsize16 = false;
    // legacy prefixes
    while i < code.len() {
        match code[i] {
            0xf0 => d.lock = true,
            0x66 => opsize16 = true,
            0xf2 | 0xf3 | 0x2e | 0x36 | 0x3e | 0x26 | 0x64 | 0x65 | 0x67 => {}
            _ => break,
        }
        i += 1;
    }
    let mut rex = 0u8;
    if i < code.len() && (0x40..=0x4f).contains(&code[i]) {
        rex = code[i];
        i += 1;
    }
    if i >= code.len() {
        return d;
    }
    let rex_w = rex & 8 != 0;
    let rex_r = rex & 4 != 0;
    let op = code[i];
    i += 1;
    d.sig[0] = op;
    let full_width = |byte_op: bool| -> u8 {
        if byte_op {
            1
        } else if rex_w {
            8
        } else if opsize16 {
            2
        } else {
            4
        }
    };
    // parse ModRM at position i; returns (mod, reg, rm, index of the byte after modrm+sib+disp)
    let modrm = |i: usize| -> Option<(u8, u8, u8, usize)> {
        let m = *code.get(i)?;
        let md = m >> 6;
        let reg = (m >> 3) & 7;
        let rm = m & 7;
        let mut j = i + 1;
        if md != 3 && rm == 4 {
            let sib = *code.get(j)?;
            j += 1;
            if md == 0 && (sib & 7) == 5 {
                j += 4;
            }
        }
        match md {
            0 => {
                if rm == 5 {
                    j += 4;
                }
            }
            1 => j += 1,
            2 => j += 4,
            _ => {}
        }
        Some((md, reg, rm, j))
    };
    let reg_val = |reg: u8, byte_op: bool| -> Option<u64> {
        let idx = (reg | if rex_r { 8 } else { 0 }) as usize;
        if byte_op && rex == 0 && (4..8).contains(&idx) {
            return None; // ah/ch/dh/bh
        }
        Some(regs[idx])
    };
    match op {
        // ALU r/m, r  and  r, r/m  (add, or, adc, sbb, and, sub, xor, cmp)
        0x00..=0x3b if (op & 7) < 4 => {
            let (md, reg, _rm, _j) = match modrm(i) {
                Some(x) => x,
                None => return d,
            };
            if md == 3 {
                return d;
            }
            let byte_op = op & 1 == 0;
            d.width = full_width(byte_op);
            let alu = op & 0x38;
            let to_mem = op & 2 == 0;
            if !to_mem || alu == 0x38 {
                d.class = Class::Load;
            } else {
                d.class = Class::Rmw;
                if alu == 0x00 || alu == 0x28 {
                    d.add_form = true;
                    if let Some(v) = reg_val(reg, byte_op) {
                        let v = if alu == 0x28 { v.wrapping_neg() } else { v };
                        d.addend = Some(trunc(v, d.width));
                    }
                }
            }
        }
        // group 1: r/m, imm
        0x80 | 0x81 | 0x83 => {
            let (md, reg, _rm, j) = match modrm(i) {
                Some(x) => x,
                None => return d,
            };
            if md == 3 {
                return d;
            }
            let byte_op = op == 0x80;
            d.width = full_width(byte_op);
            if reg == 7 {
                d.class = Class::Load;
            } else {
                d.class = Class::Rmw;
                if reg == 0 || reg == 5 {
                    d.add_form = true;
                    let imm: Option<i64> = if op == 0x81 {
                        if d.width == 2 {
                            code.get(j..j + 2).map(|b| i16::from_le_bytes([b[0], b[1]]) as i64)
                        } else {
                            code.get(j..j + 4).map(|b| i32::from_le_bytes([b[0], b[1], b[2], b[3]]) as i64)
                        }
                    } else {
                        code.get(j).map(|b| *b as i8 as i64)
                    };
                    if let Some(v) = imm {
                        let v = if reg == 5 { (v as u64).wrapping_neg() } else { v as u64 };
                        d.addend = Some(trunc(v, d.width));
                    }
                }
            }
        }
        0x84 | 0x85 => {
            if let Some((md, ..)) = modrm(i) {
                if md != 3 {
                    d.class = Class::Load;
                    d.width = full_width(op == 0x84);
                }
            }
        }
        0x86 | 0x87 => {
            if let Some((md, ..)) = modrm(i) {
                if md != 3 {
                    d.class = Class::Rmw;
                    d.implicit_lock = true;
                    d.width = full_width(op == 0x86);
                }
            }
        }
        0x88 | 0x89 => {
            if let Some((md, ..)) = modrm(i) {
                if md != 3 {
                    d.class = Class::Store;
                    d.width = full_width(op == 0x88);
                }
            }
        }
        0x8a | 0x8b => {
            if let Some((md, ..)) = modrm(i) {
                if md != 3 {
                    d.class = Class::Load;
                    d.width = full_width(op == 0x8a);
                }
            }
        }
        0x63 => {
            if let Some((md, ..)) = modrm(i) {
                if md != 3 {
                    d.class = Class::Load;
                    d.width = 4;
                }
            }
        }
        0xc6 | 0xc7 => {
            if let Some((md, reg, ..)) = modrm(i) {
                if md != 3 && reg == 0 {
                    d.class = Class::Store;
                    d.width = full_width(op == 0xc6);
                }
            }
        }
        0xfe | 0xff => {
            if let Some((md, reg, ..)) = modrm(i) {
                if md != 3 && reg <= 1 {
                    d.class = Class::Rmw;
                    d.width = full_width(op == 0xfe);
                    d.add_form = true;
                    d.addend = Some(trunc(if reg == 0 { 1 } else { u64::MAX }, d.width));
                } else if md != 3 && op == 0xff && (reg == 6 || reg == 2 || reg == 4) {
                    d.class = Class::Load; // push / call / jmp through memory
                    d.width = 8;
                }
            }
        }
        0xf6 | 0xf7 => {
            if let Some((md, reg, ..)) = modrm(i) {
                if md != 3 {
                    d.width = full_width(op == 0xf6);
                    d.class = if reg == 2 || reg == 3 { Class::Rmw } else { Class::Load };
                }
            }
        }
        0x0f => {
            let op2 = match code.get(i) {
                Some(b) => *b,
                None => return d,
            };
            d.sig[1] = op2;
            let i2 = i + 1;
            match op2 {
                0xb6 | 0xbe => {
                    if let Some((md, ..)) = modrm(i2) {
                        if md != 3 {
                            d.class = Class::Load;
                            d.width = 1;
                        }
                    }
                }
                0xb7 | 0xbf => {
                    if let Some((md, ..)) = modrm(i2) {
                        if md != 3 {
                            d.class = Class::Load;
                            d.width = 2;
                        }
                    }
                }
                0xb0 | 0xb1 => {
                    if let Some((md, ..)) = modrm(i2) {
                        if md != 3 {
                            d.class = Class::Rmw;
                            d.width = full_width(op2 == 0xb0);
                        }
                    }
                }
                0xc0 | 0xc1 => {
                    if let Some((md, reg, ..)) = modrm(i2) {
                        if md != 3 {
                            let byte_op = op2 == 0xc0;
                            d.class = Class::Rmw;
                            d.width = full_width(byte_op);
                            d.add_form = true;
                            if let Some(v) = reg_val(reg, byte_op) {
                                d.addend = Some(trunc(v, d.width));
                            }
                        }
                    }
                }
                0xaf => {
                    if let Some((md, ..)) = modrm(i2) {
                        if md != 3 {
                            d.class = Class::Load;
                            d.width = full_width(false);
                        }
                    }
                }
                _ => {}
            }
        }
        _ => {}
    }
    d
}

#[cfg(test)]
mod tests {
    use super::*;
    fn regs() -> [u64; 16] {
        let mut r = [0u64; 16];
        for (i, x) in r.iter_mut().enumerate() {
            *x = 0x1111_1111_0000_0000u64.wrapping_mul(i as u64 + 1) + i as u64 + 100;
        }
        r
    }
    #[test]
    fn lock_add_32() {
        // f0 01 0f : lock add [rdi], ecx
        let d = decode(&[0xf0, 0x01, 0x0f, 0, 0, 0], &regs());
        assert_eq!(d.class, Class::Rmw);
        assert!(d.lock);
        assert_eq!(d.width, 4);
        assert_eq!(d.addend, Some(regs()[1] & 0xffff_ffff));
    }
    #[test]
    fn lock_add_64_rex() {
        // f0 4c 01 47 10 : lock add [rdi+0x10], r8
        let d = decode(&[0xf0, 0x4c, 0x01, 0x47, 0x10, 0], &regs());
        assert_eq!(d.class, Class::Rmw);
        assert!(d.lock);
        assert_eq!(d.width, 8);
        assert_eq!(d.addend, Some(regs()[8]));
    }
    #[test]
    fn plain_add_is_unlocked() {
        let d = decode(&[0x48, 0x01, 0x0f], &regs());
        assert_eq!(d.class, Class::Rmw);
        assert!(!d.lock);
        assert_eq!(d.width, 8);
    }
    #[test]
    fn lock_xadd() {
        // f0 48 0f c1 07: lock xadd [rdi], rax
        let d = decode(&[0xf0, 0x48, 0x0f, 0xc1, 0x07], &regs());
        assert_eq!(d.class, Class::Rmw);
        assert!(d.lock && d.add_form);
        assert_eq!(d.addend, Some(regs()[0]));
    }
    #[test]
    fn mov_load_store() {
        assert_eq!(decode(&[0x48, 0x8b, 0x07], &regs()).class, Class::Load);
        assert_eq!(decode(&[0x89, 0x07], &regs()).class, Class::Store);
        assert_eq!(decode(&[0x89, 0x07], &regs()).width, 4);
        assert_eq!(decode(&[0x0f, 0xb6, 0x07], &regs()).width, 1);
    }
    #[test]
    fn sub_imm_is_negated() {
        // f0 48 83 2f 05 : lock sub qword [rdi], 5
        let d = decode(&[0xf0, 0x48, 0x83, 0x2f, 0x05], &regs());
        assert_eq!(d.addend, Some(5u64.wrapping_neg()));
    }
}
