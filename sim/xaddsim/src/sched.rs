//! The page-trap scheduler: N real OS threads of which only the baton holder runs; every access
//! to the shared page by any code (interpreter, JIT output, Cranelift output) faults, and the
//! fault handler is the simulator: it decodes the access, makes a seeded scheduling decision,
//! and performs the access as one indivisible step (LOCKed RMW, load, store) or as two steps
//! with a scheduling point in between (RMW without LOCK), single-stepping the real instruction.

use crate::decode::{decode, Class};
use simcore::Rng;
use std::sync::atomic::{AtomicI32, Ordering};

pub const MAXT: usize = 6;
pub const PAGE: usize = 4096;
pub const CTRL: i32 = -1;

#[derive(Clone, Copy, Debug, PartialEq, Eq)]
pub enum EvClass {
    Load,
    Store,
    Rmw,
    /// first half of an un-LOCKed RMW: the operand was read, nothing written yet
    RmwRead,
    Unclassified,
}

#[derive(Clone, Copy, Debug)]
pub struct Event {
    pub thread: u8,
    pub class: EvClass,
    pub lock: bool,
    pub split: bool,
    pub width: u8,
    pub off: u16,
    pub sig: [u8; 3],
    pub add_form: bool,
    pub addend: Option<u64>,
    pub before: u64,
    pub after: u64,
    /// for a split RMW: the operand value read in the first half
    pub stale: u64,
    /// first byte of the page outside [off, off+width) that this step changed, or -1
    pub stray: i32,
    /// for a split RMW: did somebody else write the operand between the two halves?
    pub writer_in_window: bool,
}

#[derive(Clone, Copy, Debug, PartialEq, Eq)]
pub enum Strategy {
    Uniform,
    /// stay on the current thread, switch with probability num/16
    Sticky(u8),
    /// priorities with `d` change points
    Pct(u8),
}

#[derive(Clone, Copy)]
struct Pending {
    class: EvClass,
    lock: bool,
    split: bool,
    width: u8,
    off: u16,
    sig: [u8; 3],
    add_form: bool,
    addend: Option<u64>,
    before: u64,
    stale: u64,
    writer_in_window: bool,
}

#[repr(C)]
pub struct JmpBuf {
    regs: [u64; 8],
}

pub struct Sim {
    pub prog_view: *mut u8,
    pub mon_view: *mut u8,
    shadow: [u8; PAGE],
    baton: AtomicI32,
    pub nthreads: usize,
    /// 0 = not runnable, 1 = runnable, 2 = finished
    pub state: [u8; MAXT],
    pub replay: Vec<u8>,
    pub replaying: bool,
    pos: usize,
    pub rng: Rng,
    pub strategy: Strategy,
    prio: [u32; MAXT],
    change_points: [u32; 8],
    npoints: u32,
    pub effective: Vec<u8>,
    pub events: Vec<Event>,
    pending: [Option<Pending>; MAXT],
    pub active: bool,
    jb: [*mut JmpBuf; MAXT],
    pub crash_sig: [i32; MAXT],
    pub overflow: bool,
    pub switches: u32,
    /// accesses to the monitored page per simulated thread in this phase (runaway bound)
    accesses: [u32; MAXT],
    tids: [libc::pthread_t; MAXT],
    /// (holder, its access count, scheduling position) at the last expiry of the CPU budget
    last_expiry: (i32, u32, usize),
    /// this simulated thread runs with the trap flag set throughout (every instruction is looked at)
    pub step_mode: [bool; MAXT],
    /// add-form read-modify-write instructions without LOCK executed in generated code while stepping
    pub unlocked_generated: [u32; MAXT],
    pub stepped: [u32; MAXT],
    pub stepped_generated: [u32; MAXT],
}

// Address ranges that were made executable at run time (JIT and Cranelift code): recorded by the
// interposed `mprotect` below, never removed.
static EXEC_RANGES: [(std::sync::atomic::AtomicUsize, std::sync::atomic::AtomicUsize); NRANGES] = {
    #[allow(clippy::declare_interior_mutable_const)]
    const Z: (std::sync::atomic::AtomicUsize, std::sync::atomic::AtomicUsize) = (std::sync::atomic::AtomicUsize::new(0), std::sync::atomic::AtomicUsize::new(0));
    [Z; NRANGES]
};
const NRANGES: usize = 8192;
static EXEC_RANGES_N: std::sync::atomic::AtomicUsize = std::sync::atomic::AtomicUsize::new(0);

/// The harness binary's own `mprotect` (an executable's symbols come first): passes everything on
/// and remembers which ranges became executable.
#[no_mangle]
pub unsafe extern "C" fn mprotect(addr: *mut libc::c_void, len: libc::size_t, prot: libc::c_int) -> libc::c_int {
    if prot & libc::PROT_EXEC != 0 {
        let n = EXEC_RANGES_N.load(Ordering::Relaxed);
        let (a, b) = (addr as usize, addr as usize + len);
        if !(0..n.min(NRANGES)).any(|i| EXEC_RANGES[i].0.load(Ordering::Relaxed) == a && EXEC_RANGES[i].1.load(Ordering::Relaxed) == b) {
            let i = EXEC_RANGES_N.fetch_add(1, Ordering::Relaxed) % NRANGES;
            EXEC_RANGES[i].0.store(a, Ordering::Relaxed);
            EXEC_RANGES[i].1.store(b, Ordering::Relaxed);
        }
    }
    libc::syscall(libc::SYS_mprotect, addr, len, prot) as libc::c_int
}

fn in_generated_code(rip: usize) -> bool {
    generated_range_end(rip).is_some()
}

/// End of the recorded executable range that contains `rip` (ranges are never removed, so only the
/// range an instruction is executing from is known to be mapped).
fn generated_range_end(rip: usize) -> Option<usize> {
    let n = EXEC_RANGES_N.load(Ordering::Relaxed).min(NRANGES);
    (0..n).find_map(|i| {
        let (a, b) = (EXEC_RANGES[i].0.load(Ordering::Relaxed), EXEC_RANGES[i].1.load(Ordering::Relaxed));
        if rip >= a && rip < b {
            Some(b)
        } else {
            None
        }
    })
}

/// An execution that touches the shared page more often than this has run away (the largest
/// generated program performs a few dozen accesses): it is ended and reported as crashed.
pub const ACCESS_BUDGET: u32 = 4096;
/// CPU seconds (user and system: ITIMER_PROF) between two looks at the execution holding the baton;
/// it is ended at the second look in a row that finds it exactly where it was.
pub const CPU_BUDGET_S: i64 = 5;
/// the pseudo signal number both bounds report
pub const RUNAWAY: i32 = libc::SIGXCPU;

/// how often the CPU budget ended an execution in this process (each costs CPU_BUDGET_S seconds:
/// minimisation stops trying variants after a few)
pub static WATCHDOG_FIRED: std::sync::atomic::AtomicU32 = std::sync::atomic::AtomicU32::new(0);

static mut SIM: *mut Sim = std::ptr::null_mut();

pub fn sim() -> &'static mut Sim {
    unsafe { &mut *SIM }
}

// ---- baton -------------------------------------------------------------------------------------

fn futex_wait(a: &AtomicI32, val: i32) {
    unsafe {
        libc::syscall(libc::SYS_futex, a as *const AtomicI32, libc::FUTEX_WAIT, val, std::ptr::null::<libc::timespec>());
    }
}
fn futex_wake_all(a: &AtomicI32) {
    unsafe {
        libc::syscall(libc::SYS_futex, a as *const AtomicI32, libc::FUTEX_WAKE, i32::MAX);
    }
}

pub fn wait_baton(me: i32) {
    let s = sim();
    loop {
        let v = s.baton.load(Ordering::Acquire);
        if v == me {
            return;
        }
        futex_wait(&s.baton, v);
    }
}

pub fn pass_baton(to: i32) {
    let s = sim();
    s.baton.store(to, Ordering::Release);
    futex_wake_all(&s.baton);
}

pub fn holder() -> i32 {
    sim().baton.load(Ordering::Acquire)
}

// ---- scheduling decisions ------------------------------------------------------------------------

impl Sim {
    fn runnable(&self) -> ([u8; MAXT], usize) {
        let mut r = [0u8; MAXT];
        let mut n = 0;
        for i in 0..self.nthreads {
            if self.state[i] == 1 {
                r[n] = i as u8;
                n += 1;
            }
        }
        (r, n)
    }

    /// Pick who runs next. `me` is the current holder (or -1 for the controller / a thread that
    /// just finished). Returns -1 when nobody is runnable.
    pub fn choose(&mut self, me: i32) -> i32 {
        let (r, n) = self.runnable();
        if n == 0 {
            return CTRL;
        }
        let me_runnable = me >= 0 && self.state[me as usize] == 1;
        let fallback = if me_runnable { me } else { r[0] as i32 };
        let mut next = fallback;
        if self.replaying {
            if self.pos < self.replay.len() {
                let want = self.replay[self.pos] as i32;
                self.pos += 1;
                if (want as usize) < self.nthreads && self.state[want as usize] == 1 {
                    next = want;
                }
            }
        } else {
            next = match self.strategy {
                Strategy::Uniform => r[self.rng.below(n as u64) as usize] as i32,
                Strategy::Sticky(p) => {
                    if !me_runnable || self.rng.below(16) < p as u64 {
                        r[self.rng.below(n as u64) as usize] as i32
                    } else {
                        me
                    }
                }
                Strategy::Pct(_) => {
                    let step = self.effective.len() as u32;
                    for k in 0..self.npoints as usize {
                        if self.change_points[k] == step && me_runnable {
                            // demote the current thread below everybody
                            let lowest = (0..self.nthreads).map(|i| self.prio[i]).min().unwrap_or(0);
                            self.prio[me as usize] = lowest.saturating_sub(1);
                        }
                    }
                    let mut best = r[0] as usize;
                    for k in 0..n {
                        if self.prio[r[k] as usize] > self.prio[best] {
                            best = r[k] as usize;
                        }
                    }
                    best as i32
                }
            };
        }
        if self.effective.len() < self.effective.capacity() {
            self.effective.push(next as u8);
        } else {
            self.overflow = true;
        }
        if me >= 0 && next != me && me_runnable {
            self.switches += 1;
        }
        next
    }

    pub fn begin_phase(&mut self, replay: Option<&[u8]>, strategy: Strategy) {
        self.pos = 0;
        self.effective.clear();
        self.events.clear();
        self.switches = 0;
        self.overflow = false;
        self.accesses = [0; MAXT];
        self.last_expiry = (-2, 0, 0);
        self.step_mode = [false; MAXT];
        self.unlocked_generated = [0; MAXT];
        self.stepped = [0; MAXT];
        self.stepped_generated = [0; MAXT];
        self.pending = [None; MAXT];
        self.crash_sig = [0; MAXT];
        match replay {
            Some(r) => {
                self.replaying = true;
                self.replay.clear();
                self.replay.extend_from_slice(r);
            }
            None => {
                self.replaying = false;
                self.strategy = strategy;
                if let Strategy::Pct(d) = strategy {
                    // random distinct priorities, d change points among the first ~48 decisions
                    for i in 0..self.nthreads {
                        self.prio[i] = 1000 + self.rng.below(1 << 20) as u32;
                    }
                    self.npoints = (d as u32).min(8);
                    for k in 0..self.npoints as usize {
                        self.change_points[k] = self.rng.below(48) as u32;
                    }
                }
            }
        }
    }
}

// ---- page handling ------------------------------------------------------------------------------

pub fn page_protect(open: bool) {
    let s = sim();
    unsafe {
        libc::mprotect(s.prog_view as *mut libc::c_void, PAGE, if open { libc::PROT_READ | libc::PROT_WRITE } else { libc::PROT_NONE });
    }
}

pub fn page_reset(init: &[u8]) {
    let s = sim();
    unsafe {
        std::ptr::copy_nonoverlapping(init.as_ptr(), s.mon_view, PAGE);
    }
    s.shadow.copy_from_slice(init);
}

pub fn page_snapshot() -> Vec<u8> {
    let s = sim();
    unsafe { std::slice::from_raw_parts(s.mon_view, PAGE).to_vec() }
}

fn read_word(p: *const u8, off: usize, width: usize) -> u64 {
    let mut v = 0u64;
    for i in (0..width.min(8)).rev() {
        if off + i < PAGE {
            v = (v << 8) | unsafe { *p.add(off + i) } as u64;
        } else {
            v <<= 8;
        }
    }
    v
}

fn write_word(p: *mut u8, off: usize, width: usize, v: u64) {
    for i in 0..width.min(8) {
        if off + i < PAGE {
            unsafe { *p.add(off + i) = (v >> (8 * i)) as u8 };
        }
    }
}

// ---- fatal-signal recovery (a fault that is not an access to the monitored page) ---------------

std::arch::global_asm!(
    ".globl xaddsim_guarded_call",
    "xaddsim_guarded_call:",
    "mov [rdx + 0], rbx",
    "mov [rdx + 8], rbp",
    "mov [rdx + 16], r12",
    "mov [rdx + 24], r13",
    "mov [rdx + 32], r14",
    "mov [rdx + 40], r15",
    "mov [rdx + 48], rsp",
    "sub rsp, 8",
    "mov rax, rdi",
    "mov rdi, rsi",
    "call rax",
    "add rsp, 8",
    "xor eax, eax",
    "ret",
    ".globl xaddsim_guarded_recover",
    "xaddsim_guarded_recover:",
    "mov rbx, [rdi + 0]",
    "mov rbp, [rdi + 8]",
    "mov r12, [rdi + 16]",
    "mov r13, [rdi + 24]",
    "mov r14, [rdi + 32]",
    "mov r15, [rdi + 40]",
    "mov rsp, [rdi + 48]",
    "mov eax, 1",
    "ret",
);

extern "C" {
    fn xaddsim_guarded_call(f: extern "C" fn(*mut u8), arg: *mut u8, jb: *mut JmpBuf) -> u32;
    fn xaddsim_guarded_recover();
}

struct CallCtx<'a, T> {
    f: Option<Box<dyn FnOnce() -> T + 'a>>,
    out: Option<std::thread::Result<T>>,
}

extern "C" fn trampoline<T>(p: *mut u8) {
    let ctx = unsafe { &mut *(p as *mut CallCtx<T>) };
    let f = ctx.f.take().unwrap();
    ctx.out = Some(std::panic::catch_unwind(std::panic::AssertUnwindSafe(f)));
}

pub enum Guarded<T> {
    Done(T),
    Signal(i32),
    Panic(String),
}

/// Run `f` on simulated thread `me` so that a crash inside it becomes a value.
pub fn guarded<'a, T>(me: usize, f: impl FnOnce() -> T + 'a) -> Guarded<T> {
    let mut ctx: CallCtx<T> = CallCtx { f: Some(Box::new(f)), out: None };
    let mut jb = JmpBuf { regs: [0; 8] };
    sim().tids[me] = unsafe { libc::pthread_self() };
    sim().jb[me] = &mut jb;
    let r = unsafe { xaddsim_guarded_call(trampoline::<T>, &mut ctx as *mut _ as *mut u8, &mut jb) };
    sim().jb[me] = std::ptr::null_mut();
    if r == 1 {
        std::mem::forget(ctx);
        return Guarded::Signal(sim().crash_sig[me]);
    }
    match ctx.out.take().unwrap() {
        Ok(v) => Guarded::Done(v),
        Err(e) => {
            let msg = if let Some(s) = e.downcast_ref::<&str>() {
                s.to_string()
            } else if let Some(s) = e.downcast_ref::<String>() {
                s.clone()
            } else {
                "panic".to_string()
            };
            Guarded::Panic(msg)
        }
    }
}

// ---- the handlers ---------------------------------------------------------------------------------

const HW_REGS: [i32; 16] = [
    libc::REG_RAX,
    libc::REG_RCX,
    libc::REG_RDX,
    libc::REG_RBX,
    libc::REG_RSP,
    libc::REG_RBP,
    libc::REG_RSI,
    libc::REG_RDI,
    libc::REG_R8,
    libc::REG_R9,
    libc::REG_R10,
    libc::REG_R11,
    libc::REG_R12,
    libc::REG_R13,
    libc::REG_R14,
    libc::REG_R15,
];

unsafe fn recover_or_die(sig: i32, uc: *mut libc::ucontext_t) {
    let s = sim();
    let me = s.baton.load(Ordering::Acquire);
    if s.active && me >= 0 && !s.jb[me as usize].is_null() {
        let jb = s.jb[me as usize];
        s.jb[me as usize] = std::ptr::null_mut();
        s.crash_sig[me as usize] = sig;
        // if a single step was pending, close the page again
        if s.pending[me as usize].take().is_some() {
            libc::mprotect(s.prog_view as *mut libc::c_void, PAGE, libc::PROT_NONE);
        }
        (*uc).uc_mcontext.gregs[libc::REG_RIP as usize] = xaddsim_guarded_recover as *const () as usize as i64;
        (*uc).uc_mcontext.gregs[libc::REG_RDI as usize] = jb as usize as i64;
        (*uc).uc_mcontext.gregs[libc::REG_EFL as usize] &= !0x500;
        return;
    }
    libc::signal(sig, libc::SIG_DFL);
    libc::raise(sig);
}

extern "C" fn on_segv(sig: libc::c_int, info: *mut libc::siginfo_t, ctx: *mut libc::c_void) {
    unsafe {
        let s = sim();
        let uc = ctx as *mut libc::ucontext_t;
        let addr = (*info).si_addr() as usize;
        let base = s.prog_view as usize;
        let me = s.baton.load(Ordering::Acquire);
        if !s.active || me < 0 || addr < base || addr >= base + PAGE {
            recover_or_die(sig, uc);
            return;
        }
        let me = me as usize;
        if s.pending[me].is_some() {
            // a second fault while single-stepping: cannot happen with the page open
            recover_or_die(sig, uc);
            return;
        }
        s.accesses[me] += 1;
        if s.accesses[me] > ACCESS_BUDGET {
            recover_or_die(RUNAWAY, uc);
            return;
        }
        let off = addr - base;
        // instruction bytes at the saved RIP (never read across a page end blindly)
        let rip = (*uc).uc_mcontext.gregs[libc::REG_RIP as usize] as usize;
        let mut code = [0u8; 15];
        // The instruction may straddle a page end, and the page after it need not be mapped beyond
        // the instruction's last byte: let the kernel copy as much as is readable (never faults);
        // fall back to the bytes up to the end of this page.
        let mut room = (PAGE - (rip & (PAGE - 1))).min(15);
        let local = libc::iovec { iov_base: code.as_mut_ptr() as *mut libc::c_void, iov_len: 15 };
        let remote = libc::iovec { iov_base: rip as *mut libc::c_void, iov_len: 15 };
        let n = libc::process_vm_readv(libc::getpid(), &local, 1, &remote, 1, 0);
        if n > 0 {
            room = n as usize;
        } else {
            std::ptr::copy_nonoverlapping(rip as *const u8, code.as_mut_ptr(), room);
        }
        let mut regs = [0u64; 16];
        for (i, r) in HW_REGS.iter().enumerate() {
            regs[i] = (*uc).uc_mcontext.gregs[*r as usize] as u64;
        }
        let d = decode(&code[..room], &regs);
        let width = d.width as usize;
        let class = match d.class {
            Class::Load => EvClass::Load,
            Class::Store => EvClass::Store,
            Class::Rmw => EvClass::Rmw,
            Class::Unclassified => EvClass::Unclassified,
        };
        let split = class == EvClass::Rmw && !d.lock && !d.implicit_lock;

        // ---- scheduling point before the access ----
        let next = s.choose(me as i32);
        if next != me as i32 {
            pass_baton(next);
            wait_baton(me as i32);
        }
        let mut stale = 0u64;
        let mut writer_in_window = false;
        if split {
            // micro-op 1: read the operand; then let others run; micro-op 2 below
            stale = read_word(s.mon_view, off, width);
            if s.events.len() < s.events.capacity() {
                s.events.push(Event { thread: me as u8, class: EvClass::RmwRead, lock: false, split: true, width: d.width, off: off as u16, sig: d.sig, add_form: d.add_form, addend: d.addend, before: stale, after: stale, stale, stray: -1, writer_in_window: false });
            } else {
                s.overflow = true;
            }
            let next = s.choose(me as i32);
            if next != me as i32 {
                pass_baton(next);
                wait_baton(me as i32);
            }
        }
        let before = read_word(s.mon_view, off, width);
        if split {
            writer_in_window = before != stale;
            // the CPU will now compute f(stale, src) and store it: exactly a non-atomic RMW
            write_word(s.mon_view, off, width, stale);
        }
        s.pending[me] = Some(Pending { class, lock: d.lock || d.implicit_lock, split, width: d.width, off: off as u16, sig: d.sig, add_form: d.add_form, addend: d.addend, before, stale, writer_in_window });
        libc::mprotect(s.prog_view as *mut libc::c_void, PAGE, libc::PROT_READ | libc::PROT_WRITE);
        (*uc).uc_mcontext.gregs[libc::REG_EFL as usize] |= 0x100; // trap flag: one instruction
    }
}

/// Step mode: decode the instruction at the saved RIP if it lies in code generated at run time.
unsafe fn look_at_next_instruction(s: &mut Sim, me: usize, uc: *mut libc::ucontext_t) {
    s.stepped[me] += 1;
    let rip = (*uc).uc_mcontext.gregs[libc::REG_RIP as usize] as usize;
    if let Some(end) = generated_range_end(rip) {
        s.stepped_generated[me] += 1;
        // (the JIT's pages are writable + executable without PROT_READ: the kernel refuses
        // process_vm_readv there, the CPU does not; reading stays inside the very range this
        // instruction executes from, which was made executable as a whole and is mapped)
        let mut code = [0u8; 15];
        let room = (end - rip).min(15);
        std::ptr::copy_nonoverlapping(rip as *const u8, code.as_mut_ptr(), room);
        let regs = [0u64; 16];
        let d = decode(&code[..room], &regs);
        if d.class == Class::Rmw && d.add_form && !d.lock && !d.implicit_lock {
            s.unlocked_generated[me] += 1;
        }
    }
}

extern "C" fn on_trap(sig: libc::c_int, _info: *mut libc::siginfo_t, ctx: *mut libc::c_void) {
    unsafe {
        let s = sim();
        let uc = ctx as *mut libc::ucontext_t;
        let me = s.baton.load(Ordering::Acquire);
        if s.active && me >= 0 && s.pending[me as usize].is_none() && s.step_mode[me as usize] {
            // free-running single-step mode: look at the instruction that is about to execute
            look_at_next_instruction(s, me as usize, uc);
            return; // the trap flag stays set in the saved context
        }
        if !s.active || me < 0 || s.pending[me as usize].is_none() {
            recover_or_die(sig, uc);
            return;
        }
        let me = me as usize;
        libc::mprotect(s.prog_view as *mut libc::c_void, PAGE, libc::PROT_NONE);
        if !s.step_mode[me] {
            (*uc).uc_mcontext.gregs[libc::REG_EFL as usize] &= !0x100;
        } else {
            // (the instruction after a monitored access must be looked at as well)
            look_at_next_instruction(s, me, uc);
        }
        let p = s.pending[me].take().unwrap();
        let off = p.off as usize;
        let width = p.width as usize;
        let after = read_word(s.mon_view, off, width);
        // which bytes changed, compared with what the page held before this step
        let mut stray: i32 = -1;
        let cur = std::slice::from_raw_parts(s.mon_view, PAGE);
        if p.split {
            // the shadow still has the pre-step contents except for our own stale write-back
            write_word(s.shadow.as_mut_ptr(), off, width, p.stale);
        }
        for i in 0..PAGE {
            if cur[i] != s.shadow[i] {
                if (i < off || i >= off + width) && stray < 0 {
                    stray = i as i32;
                }
                s.shadow[i] = cur[i];
            }
        }
        if s.events.len() < s.events.capacity() {
            s.events.push(Event { thread: me as u8, class: p.class, lock: p.lock, split: p.split, width: p.width, off: p.off, sig: p.sig, add_form: p.add_form, addend: p.addend, before: p.before, after, stale: p.stale, stray, writer_in_window: p.writer_in_window });
        } else {
            s.overflow = true;
        }
    }
}

/// The CPU budget of the scenario ran out (ITIMER_PROF, so a stalled machine cannot fire it):
/// end the execution that holds the baton — it is the only one running.
extern "C" fn on_vtalrm(_sig: libc::c_int, _info: *mut libc::siginfo_t, ctx: *mut libc::c_void) {
    unsafe {
        let s = sim();
        let holder = s.baton.load(Ordering::Acquire);
        if !s.active || holder < 0 || s.jb[holder as usize].is_null() {
            return;
        }
        // Only an execution that made no progress at all between two expiries is ended here (one that
        // keeps touching the page runs into the access budget): CPU time the kernel spends on this
        // process's behalf elsewhere, or time stolen from the virtual CPU, cannot end a healthy run.
        let now = (holder, s.accesses[holder as usize], s.effective.len());
        if s.last_expiry != now {
            s.last_expiry = now;
            return;
        }
        WATCHDOG_FIRED.fetch_add(1, Ordering::Relaxed);
        let tid = s.tids[holder as usize];
        if libc::pthread_equal(libc::pthread_self(), tid) != 0 {
            recover_or_die(RUNAWAY, ctx as *mut libc::ucontext_t);
        } else {
            libc::pthread_kill(tid, libc::SIGXCPU);
        }
    }
}

extern "C" fn on_xcpu(_sig: libc::c_int, info: *mut libc::siginfo_t, ctx: *mut libc::c_void) {
    unsafe {
        // only the one this process sent to itself (a kernel SIGXCPU from an RLIMIT_CPU is not ours)
        if (*info).si_code != libc::SI_TKILL || (*info).si_pid() != libc::getpid() {
            return;
        }
        let s = sim();
        let holder = s.baton.load(Ordering::Acquire);
        if s.active && holder >= 0 && !s.jb[holder as usize].is_null() && libc::pthread_equal(libc::pthread_self(), s.tids[holder as usize]) != 0 {
            recover_or_die(RUNAWAY, ctx as *mut libc::ucontext_t);
        }
    }
}

/// Arm (seconds > 0) or disarm (0) the per-scenario CPU budget. It fires again every `seconds` of CPU:
/// the same program runs away in the solo pass and again in the concurrent pass.
pub fn cpu_budget(seconds: i64) {
    unsafe {
        let it = libc::itimerval { it_interval: libc::timeval { tv_sec: seconds, tv_usec: 0 }, it_value: libc::timeval { tv_sec: seconds, tv_usec: 0 } };
        libc::setitimer(libc::ITIMER_PROF, &it, std::ptr::null_mut());
    }
}

extern "C" fn on_other(sig: libc::c_int, _info: *mut libc::siginfo_t, ctx: *mut libc::c_void) {
    unsafe { recover_or_die(sig, ctx as *mut libc::ucontext_t) }
}

pub fn init() {
    unsafe {
        let fd = libc::memfd_create(c"xaddsim-page".as_ptr(), 0);
        assert!(fd >= 0, "memfd_create");
        assert_eq!(libc::ftruncate(fd, PAGE as i64), 0);
        // the program view sits between two inaccessible guard pages, so that an access that misses
        // the region by less than a page faults (and is recovered as a crash of that execution)
        // instead of landing in some other mapping of the harness
        let span = libc::mmap(std::ptr::null_mut(), 3 * PAGE, libc::PROT_NONE, libc::MAP_PRIVATE | libc::MAP_ANONYMOUS, -1, 0);
        assert!(span != libc::MAP_FAILED);
        let prog_view = libc::mmap((span as *mut u8).add(PAGE) as *mut libc::c_void, PAGE, libc::PROT_NONE, libc::MAP_SHARED | libc::MAP_FIXED, fd, 0);
        let mon_view = libc::mmap(std::ptr::null_mut(), PAGE, libc::PROT_READ | libc::PROT_WRITE, libc::MAP_SHARED, fd, 0);
        assert!(prog_view != libc::MAP_FAILED && mon_view != libc::MAP_FAILED);
        let s = Box::new(Sim {
            prog_view: prog_view as *mut u8,
            mon_view: mon_view as *mut u8,
            shadow: [0; PAGE],
            baton: AtomicI32::new(CTRL),
            nthreads: 0,
            state: [0; MAXT],
            replay: Vec::with_capacity(4096),
            replaying: false,
            pos: 0,
            rng: Rng::new(0),
            strategy: Strategy::Uniform,
            prio: [0; MAXT],
            change_points: [0; 8],
            npoints: 0,
            effective: Vec::with_capacity(4096),
            events: Vec::with_capacity(4096),
            pending: [None; MAXT],
            active: false,
            jb: [std::ptr::null_mut(); MAXT],
            crash_sig: [0; MAXT],
            overflow: false,
            switches: 0,
            accesses: [0; MAXT],
            tids: [0; MAXT],
            last_expiry: (-2, 0, 0),
            step_mode: [false; MAXT],
            unlocked_generated: [0; MAXT],
            stepped: [0; MAXT],
            stepped_generated: [0; MAXT],
        });
        SIM = Box::leak(s);
        for (sig, h) in [
            (libc::SIGSEGV, on_segv as *const () as usize),
            (libc::SIGTRAP, on_trap as *const () as usize),
            (libc::SIGBUS, on_other as *const () as usize),
            (libc::SIGILL, on_other as *const () as usize),
            (libc::SIGFPE, on_other as *const () as usize),
            // a non-unwinding panic inside rbpf (e.g. rustc's misaligned-dereference check) ends
            // in abort(): an outcome of the execution, not the death of the worker
            (libc::SIGABRT, on_other as *const () as usize),
            (libc::SIGPROF, on_vtalrm as *const () as usize),
            (libc::SIGXCPU, on_xcpu as *const () as usize),
        ] {
            let mut sa: libc::sigaction = std::mem::zeroed();
            sa.sa_sigaction = h;
            sa.sa_flags = libc::SA_SIGINFO | libc::SA_NODEFER;
            libc::sigemptyset(&mut sa.sa_mask);
            libc::sigaction(sig, &sa, std::ptr::null_mut());
        }
    }
}
