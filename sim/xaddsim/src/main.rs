//! xaddsim — deterministic simulation of N concurrent eBPF executions (interpreter, x86-64 JIT,
//! Cranelift; real machine code) doing atomic adds on shared words, under a seeded scheduler that
//! decides the interleaving of every memory micro-operation (DESIGN.md section 5). Decides C18.
//!
//!   xaddsim run    --seed S --start A --count N --out FILE [--hash-every K]
//!   xaddsim replay FILE
//!   xaddsim show   --seed S --index I

mod decode;
mod sched;

use sched::*;
use simcore::json::{self, JsonValue};
use simcore::{mix, Fnv, Rng};
use std::collections::{BTreeMap, BTreeSet};
use std::time::Instant;

// ---------------------------------------------------------------------------------------------
// Scenario
// ---------------------------------------------------------------------------------------------

#[derive(Clone, Copy, PartialEq, Eq, Debug)]
enum Engine {
    Interp,
    Jit,
    Cl,
}
impl Engine {
    fn name(self) -> &'static str {
        match self {
            Engine::Interp => "interp",
            Engine::Jit => "jit",
            Engine::Cl => "cranelift",
        }
    }
    fn parse(s: &str) -> Option<Engine> {
        Some(match s {
            "interp" => Engine::Interp,
            "jit" => Engine::Jit,
            "cranelift" => Engine::Cl,
            _ => return None,
        })
    }
}

/// How the program reaches the shared page.
#[derive(Clone, Copy, PartialEq, Eq, Debug)]
enum Reach {
    /// EbpfVmRaw, packet = the shared region (all engines)
    RawPacket,
    /// EbpfVmMbuff, metadata buffer = the shared region, empty packet (all engines)
    Mbuff,
    /// EbpfVmNoData + register_allowed_memory + lddw r1, <address> (interpreter only)
    Allowed,
    /// the packet of a fixed-metadata VM: the program first loads the packet address from the slot
    /// the VM keeps in its own buffer (data offset 0x40, end offset 0x50)
    Fixed,
}
impl Reach {
    fn name(self) -> &'static str {
        match self {
            Reach::RawPacket => "raw_packet",
            Reach::Mbuff => "mbuff",
            Reach::Allowed => "allowed_memory",
            Reach::Fixed => "fixed_mbuff_packet",
        }
    }
    fn parse(s: &str) -> Option<Reach> {
        Some(match s {
            "raw_packet" => Reach::RawPacket,
            "mbuff" => Reach::Mbuff,
            "allowed_memory" => Reach::Allowed,
            "fixed_mbuff_packet" => Reach::Fixed,
            _ => return None,
        })
    }
}

#[derive(Clone, Debug)]
struct Add {
    width: u8,
    /// byte offset inside the shared region
    off: u16,
    addend: u64,
    /// eBPF registers used: base register and source register
    base_reg: u8,
    src_reg: u8,
    /// address is formed as (region + bias) + (off - bias): exercises negative / 32-bit displacements
    bias: i32,
    via_lddw: bool,
    /// the source register IS the base register (`xadd [rX+d], rX`): the addend is the base
    /// register's value, i.e. an address — resolved per process, such runs are not hashed
    src_is_base: bool,
    /// how the source register comes to hold the addend: 0 = loaded directly; 1 = lddw of garbage
    /// in the upper half, then or32 0; 2 = the same with add32 0; 3 = stored to the stack
    /// and loaded back; 4 = garbage upper half, then lsh 32 / arsh 32 (sign extension of the low half)
    src_shape: u8,
    /// the addend is not a constant: the source register is loaded (ldxw / ldxdw) from this word of
    /// the shared region right before the add, then or-ed with 1 (never 0) - under concurrency it is
    /// whatever the word held at that moment
    from_load: Option<(u16, u8)>,
    /// that load is an absolute packet load (ldabsw / ldabsdw into r0, which is then the source
    /// register) instead of ldx through the base register; only where the region is the packet
    load_abs: bool,
    /// straight-line programs only: a register is computed right before this add and a conditional
    /// jump on it right after the add decides whether the next adds are executed
    guard: Option<Guard>,
}

/// `mov64 r9, pre ; ... ; <alu> r9, alu_imm ; xadd ; <jmp> r9, jmp_imm, +(the next `skip` adds)`
#[derive(Clone, Debug)]
struct Guard {
    pre: i32,
    /// eBPF ALU opcode with an immediate operand (64- or 32-bit add, sub, or, and, xor)
    alu: u8,
    alu_imm: i32,
    /// eBPF conditional jump opcode with an immediate operand (JMP or JMP32 class)
    jmp: u8,
    jmp_imm: i32,
    skip: u8,
}

impl Guard {
    fn reg_value(&self) -> u64 {
        let r = self.pre as i64 as u64;
        let op = self.alu & 0xf0;
        if self.alu & 7 == 7 {
            let i = self.alu_imm as i64 as u64;
            match op {
                0x00 => r.wrapping_add(i),
                0x10 => r.wrapping_sub(i),
                0x40 => r | i,
                0x50 => r & i,
                _ => r ^ i,
            }
        } else {
            let (r, i) = (r as u32, self.alu_imm as u32);
            (match op {
                0x00 => r.wrapping_add(i),
                0x10 => r.wrapping_sub(i),
                0x40 => r | i,
                0x50 => r & i,
                _ => r ^ i,
            }) as u64
        }
    }
    fn taken(&self) -> bool {
        let r = self.reg_value();
        let op = self.jmp & 0xf0;
        if self.jmp & 7 == 5 {
            let i = self.jmp_imm as i64 as u64;
            match op {
                0x10 => r == i,
                0x50 => r != i,
                0x20 => r > i,
                0x30 => r >= i,
                0xa0 => r < i,
                0xb0 => r <= i,
                0x40 => r & i != 0,
                0x60 => (r as i64) > i as i64,
                0x70 => (r as i64) >= i as i64,
                0xc0 => (r as i64) < i as i64,
                _ => (r as i64) <= i as i64,
            }
        } else {
            let (r, i) = (r as u32, self.jmp_imm as u32);
            match op {
                0x10 => r == i,
                0x50 => r != i,
                0x20 => r > i,
                0x30 => r >= i,
                0xa0 => r < i,
                0xb0 => r <= i,
                0x40 => r & i != 0,
                0x60 => (r as i32) > i as i32,
                0x70 => (r as i32) >= i as i32,
                0xc0 => (r as i32) < i as i32,
                _ => (r as i32) <= i as i32,
            }
        }
    }
}

#[derive(Clone, Debug)]
struct ExecSpec {
    engine: Engine,
    reach: Reach,
    adds: Vec<Add>,
    /// trailing load of one word (a pure scheduling point), or none
    tail_load: Option<(u16, u8)>,
    /// the adds are the body of a counter loop executed this many times (1 = straight line)
    loop_n: u8,
    /// in a loop over a single add: the source register is loaded once before the loop and grows by
    /// this much after every add (the back edge lands on the atomic add itself); 0 = reloaded each time
    loop_step: u32,
    /// in a loop: the counter is decremented at the top of the body, so that only the atomic add
    /// (and the set-up of its operands) lies between the decrement and the back edge testing it
    loop_dec_first: bool,
    /// this many no-op instructions precede everything else
    pad: u16,
    /// allowed-memory reach: how the region is registered (0 = one range; 1 = the whole, then a
    /// nested part; 2 = a nested part, then the whole; 3 = two adjacent halves; 4 = the whole twice;
    /// 5 = two overlapping ranges; 6-8 = three to five registrations). Every byte of the region is covered in each case.
    allowed_split: u8,
    /// the adds sit in an eBPF-to-eBPF local function called from main (interpreter and JIT only)
    in_callee: bool,
    /// a helper that overwrites every caller-saved register is called before the adds
    helper_first: bool,
    /// an atomic add on the program's own stack (base register r10) whose result, folded with two
    /// sentinel neighbours, is what the execution returns
    stack_check: Option<StackCheck>,
}

#[derive(Clone, Debug)]
struct StackCheck {
    width: u8,
    /// byte offset of the add inside the 8-byte slot at r10-16 (0, or 4 for the upper u32)
    half: u8,
    init: u64,
    addend: u64,
    src_reg: u8,
    /// interpreter only: the add is moved this many bytes off its natural alignment; the
    /// interpreter must refuse it (the execution ends there with an error, nothing was written)
    misalign: u8,
}

impl StackCheck {
    fn expected(&self) -> u64 {
        if self.width == 8 {
            self.init.wrapping_add(self.addend)
        } else {
            let sh = self.half as u32 * 8;
            let part = ((self.init >> sh) as u32).wrapping_add(self.addend as u32);
            (self.init & !(0xffff_ffffu64 << sh)) | ((part as u64) << sh)
        }
    }
}

#[derive(Clone, Debug)]
struct Scenario {
    /// length of the shared region handed to the programs (starts at page offset 0)
    region_len: usize,
    init: Vec<u8>,
    execs: Vec<ExecSpec>,
    strategy: Strategy,
    /// explicit decision list (replay) — empty when the schedule is to be drawn from the PRNG
    schedule: Option<Vec<u8>>,
    /// some addend is (or, before `resolve` replaced it, was) an address of this process
    addr_dep: bool,
}

impl Scenario {
    fn addr_dependent(&self) -> bool {
        self.addr_dep || self.execs.iter().any(|e| e.adds.iter().any(|a| a.src_is_base))
    }
    /// Fill in the addends that are addresses (base register used as source).
    fn resolve(&mut self, region_addr: u64) {
        self.addr_dep = self.addr_dependent();
        for e in self.execs.iter_mut() {
            for a in e.adds.iter_mut() {
                if a.src_is_base {
                    a.addend = region_addr.wrapping_add(a.bias as i64 as u64);
                    if a.addend & mask(a.width) == 0 {
                        // an addend of 0 modulo the width would make the add invisible: use another register
                        a.src_is_base = false;
                        a.addend = 1;
                        a.via_lddw = false;
                    }
                }
            }
        }
    }
}

fn aligned(a: &Add) -> bool {
    a.off as usize % a.width as usize == 0
}

fn ins(opc: u8, dst: u8, src: u8, off: i16, imm: i32) -> [u8; 8] {
    let o = off.to_le_bytes();
    let i = imm.to_le_bytes();
    [opc, (src << 4) | (dst & 0xf), o[0], o[1], i[0], i[1], i[2], i[3]]
}

const HELPER_KEY: u32 = 1;

/// A helper that does nothing except what every C function is entitled to do: overwrite the
/// caller-saved registers (rcx, rdx, rsi, rdi, r8-r11).
fn noop_helper(_a: u64, _b: u64, _c: u64, _d: u64, _e: u64) -> u64 {
    unsafe {
        std::arch::asm!(
            "mov rcx, 0x1111111111111111",
            "mov rdx, rcx",
            "mov rsi, rcx",
            "mov rdi, rcx",
            "mov r8, rcx",
            "mov r9, rcx",
            "mov r10, rcx",
            "mov r11, rcx",
            out("rcx") _, out("rdx") _, out("rsi") _, out("rdi") _, out("r8") _, out("r9") _, out("r10") _, out("r11") _,
            options(nomem, nostack)
        );
    }
    0
}

fn guards_active(e: &ExecSpec) -> bool {
    e.loop_n <= 1
}

fn body_insns(e: &ExecSpec) -> Vec<[u8; 8]> {
    let mut v: Vec<[u8; 8]> = Vec::new();
    // (index of the conditional jump in v, index of the add it follows, adds to skip)
    let mut jumps: Vec<(usize, usize, u8)> = Vec::new();
    let mut group_start: Vec<usize> = Vec::new();
    for (ai, a) in e.adds.iter().enumerate() {
        group_start.push(v.len());
        let guard = if guards_active(e) { a.guard.as_ref() } else { None };
        if let Some(g) = guard {
            v.push(ins(0xb7, 9, 0, 0, g.pre));
        }
        // base register = region + bias, always rebuilt from the callee-saved copy in r6 (any
        // register may have been used as a source since)
        if a.base_reg != 6 {
            v.push(ins(0xbf, a.base_reg, 6, 0, 0));
        }
        if a.bias != 0 {
            v.push(ins(0x07, a.base_reg, 0, 0, a.bias));
        }
        let src_reg = if a.src_is_base { a.base_reg } else { a.src_reg };
        if a.src_is_base {
            // nothing to load: the addend is whatever the base register holds
        } else if let Some((loff, lw)) = a.from_load {
            if a.load_abs {
                v.push(ins(if lw == 4 { 0x20 } else { 0x38 }, 0, 0, 0, loff as i32)); // ldabsw / ldabsdw -> r0 (= rS)
            } else {
                v.push(ins(if lw == 4 { 0x61 } else { 0x79 }, a.src_reg, a.base_reg, (loff as i32 - a.bias) as i16, 0));
            }
            v.push(ins(0x47, a.src_reg, 0, 0, 1)); // or64 rS, 1
        } else if matches!(a.src_shape, 1 | 2 | 4) {
            // the upper half is garbage until the 32-bit operation / the shifts have run
            v.push(ins(0x18, a.src_reg, 0, 0, a.addend as u32 as i32));
            v.push(ins(0, 0, 0, 0, 0x5a5a_a5a5u32 as i32));
            match a.src_shape {
                // (not mov32 rS, rS: the x86-64 JIT emits a 64-bit mov for it and keeps the upper half - a
                // matter of C03, not of this check)
                1 => v.push(ins(0x44, a.src_reg, 0, 0, 0)), // or32 rS, 0
                2 => v.push(ins(0x04, a.src_reg, 0, 0, 0)),         // add32 rS, 0
                _ => {
                    v.push(ins(0x67, a.src_reg, 0, 0, 32)); // lsh64 rS, 32
                    v.push(ins(0xc7, a.src_reg, 0, 0, 32)); // arsh64 rS, 32
                }
            }
        } else if a.via_lddw {
            v.push(ins(0x18, a.src_reg, 0, 0, a.addend as u32 as i32));
            v.push(ins(0, 0, 0, 0, (a.addend >> 32) as u32 as i32));
        } else {
            v.push(ins(0xb7, a.src_reg, 0, 0, a.addend as i64 as i32));
        }
        if a.src_shape == 3 && !a.src_is_base {
            v.push(ins(0x7b, 10, a.src_reg, -64, 0)); // stxdw [r10-64], rS
            v.push(ins(0xb7, a.src_reg, 0, 0, 0));
            v.push(ins(0x79, a.src_reg, 10, -64, 0)); // ldxdw rS, [r10-64]
        }
        let disp = a.off as i32 - a.bias;
        if let Some(g) = guard {
            v.push(ins(g.alu, 9, 0, 0, g.alu_imm));
        }
        v.push(ins(if a.width == 4 { 0xc3 } else { 0xdb }, a.base_reg, src_reg, disp as i16, 0));
        if let Some(g) = guard {
            jumps.push((v.len(), ai, g.skip));
            v.push(ins(g.jmp, 9, 0, 0, g.jmp_imm));
        }
    }
    group_start.push(v.len());
    for (at, ai, skip) in jumps {
        let land = group_start[(ai + 1 + skip as usize).min(e.adds.len())];
        let off = land as i32 - (at as i32 + 1);
        v[at][2..4].copy_from_slice(&(off as i16).to_le_bytes());
    }
    if e.loop_n > 1 && e.loop_step > 0 && e.adds.len() == 1 && !e.adds[0].src_is_base {
        // everything up to the atomic add runs once; the back edge targets the add itself:
        //   <base and source set-up> ; mov r9, n ; L: xadd ; add64 src, step ; sub r9, 1 ; jne r9, 0, L
        let a = &e.adds[0];
        let xadd_at = v.iter().position(|i| i[0] == 0xc3 || i[0] == 0xdb).unwrap();
        let after: Vec<[u8; 8]> = v.split_off(xadd_at + 1); // restores r1 if needed: keep it after the loop
        let xadd = v.pop().unwrap();
        // the counter is set up first, so that the source register is loaded right before the add
        let mut l = vec![ins(0xb7, 9, 0, 0, e.loop_n as i32)];
        l.extend(v);
        if e.loop_dec_first {
            // L: add64 src, step ; sub r9, 1 ; xadd ; jne r9, 0, L   (the k-th add is of addend + (k+1)*step)
            l.push(ins(0x07, a.src_reg, 0, 0, e.loop_step as i32));
            l.push(ins(0x17, 9, 0, 0, 1));
            l.push(xadd);
        } else {
            l.push(xadd);
            l.push(ins(0x07, a.src_reg, 0, 0, e.loop_step as i32));
            l.push(ins(0x17, 9, 0, 0, 1));
        }
        l.push(ins(0x55, 9, 0, -4, 0));
        l.extend(after);
        return l;
    }
    if e.loop_n > 1 {
        // mov r9, n ; L: body ; sub r9, 1 ; jne r9, 0, L      (or: L: sub r9, 1 ; body ; jne r9, 0, L)
        let mut l = vec![ins(0xb7, 9, 0, 0, e.loop_n as i32)];
        let blen = v.len() as i16;
        if e.loop_dec_first {
            l.push(ins(0x17, 9, 0, 0, 1));
            l.extend(v);
        } else {
            l.extend(v);
            l.push(ins(0x17, 9, 0, 0, 1));
        }
        l.push(ins(0x55, 9, 0, -(blen + 2), 0));
        v = l;
    }
    v
}

fn build_program(e: &ExecSpec, region_addr: u64) -> Vec<u8> {
    let mut v: Vec<[u8; 8]> = Vec::new();
    if e.reach == Reach::Allowed {
        // lddw r1, region address
        v.push(ins(0x18, 1, 0, 0, region_addr as u32 as i32));
        v.push(ins(0, 0, 0, 0, (region_addr >> 32) as u32 as i32));
    }
    if e.reach == Reach::Fixed {
        // r1 is the VM's own buffer; the packet address is in its data slot
        v.push(ins(0x79, 1, 1, 0x40, 0));
    }
    // unreachable-free padding: the adds then lie beyond 127 / 32767 bytes of machine code
    for _ in 0..e.pad {
        v.push(ins(0xbf, 0, 0, 0, 0));
    }
    // r6 = r1 (callee-saved copy of the region address; also a base register with another encoding)
    v.push(ins(0xbf, 6, 1, 0, 0));
    if e.helper_first {
        for r in 1..=5u8 {
            v.push(ins(0xb7, r, 0, 0, r as i32));
        }
        v.push(ins(0x85, 0, 0, 0, HELPER_KEY as i32));
        v.push(ins(0xbf, 1, 6, 0, 0)); // r1-r5 are undefined after a helper call
    }
    if let Some(c) = &e.stack_check {
        let lddw = |v: &mut Vec<[u8; 8]>, r: u8, x: u64| {
            v.push(ins(0x18, r, 0, 0, x as u32 as i32));
            v.push(ins(0, 0, 0, 0, (x >> 32) as u32 as i32));
        };
        const SENTINEL: u64 = 0x5e5e_a1a1_c3c3_7b7b;
        lddw(&mut v, 2, c.init);
        v.push(ins(0x7b, 10, 2, -16, 0)); // stxdw [r10-16], r2
        lddw(&mut v, 3, SENTINEL);
        v.push(ins(0x7b, 10, 3, -8, 0));
        v.push(ins(0x7b, 10, 3, -24, 0));
        lddw(&mut v, c.src_reg, c.addend);
        v.push(ins(if c.width == 4 { 0xc3 } else { 0xdb }, 10, c.src_reg, -16 + c.half as i16 + c.misalign as i16, 0));
        v.push(ins(0x79, 8, 10, -16, 0)); // ldxdw r8, [r10-16]
        v.push(ins(0x79, 2, 10, -8, 0));
        v.push(ins(0xaf, 8, 2, 0, 0)); // xor64 r8, r2
        v.push(ins(0x79, 2, 10, -24, 0));
        v.push(ins(0xaf, 8, 2, 0, 0)); // both neighbours intact => r8 is the slot again
    }
    let body = body_insns(e);
    let tail = match e.tail_load {
        Some((off, w)) => ins(if w == 4 { 0x61 } else { 0x79 }, 0, 6, off as i16, 0),
        None => ins(0xb7, 0, 0, 0, 0),
    };
    // what the execution returns: the stack self-check result if there is one
    let ret: Vec<[u8; 8]> = if e.stack_check.is_some() { vec![tail, ins(0xbf, 0, 8, 0, 0)] } else { vec![tail] };
    if e.in_callee {
        // main: call f ; tail ; exit      f: body ; exit
        v.push(ins(0x85, 0, 1, 0, ret.len() as i32 + 1));
        v.extend(ret);
        v.push(ins(0x95, 0, 0, 0, 0));
        v.extend(body);
        v.push(ins(0x95, 0, 0, 0, 0));
    } else {
        v.extend(body);
        v.extend(ret);
        v.push(ins(0x95, 0, 0, 0, 0));
    }
    v.concat()
}

impl Scenario {
    fn to_json(&self) -> JsonValue {
        let mut o = JsonValue::new_object();
        o["region_len"] = self.region_len.into();
        o["init"] = simcore::hex(&self.init[..self.region_len]).into();
        o["strategy"] = format!("{:?}", self.strategy).into();
        let mut ex = Vec::new();
        for e in &self.execs {
            let mut j = JsonValue::new_object();
            j["engine"] = e.engine.name().into();
            j["reach"] = e.reach.name().into();
            let mut adds = Vec::new();
            for a in &e.adds {
                let mut aj = JsonValue::new_object();
                aj["width"] = a.width.into();
                aj["off"] = a.off.into();
                aj["addend"] = simcore::ju64(a.addend);
                aj["addend_hex"] = format!("{:#x}", a.addend).into();
                aj["base_reg"] = a.base_reg.into();
                aj["src_reg"] = a.src_reg.into();
                aj["bias"] = a.bias.into();
                aj["via_lddw"] = a.via_lddw.into();
                aj["src_is_base"] = a.src_is_base.into();
                aj["src_shape"] = a.src_shape.into();
                if let Some((lo, lw)) = a.from_load {
                    aj["from_load"] = json::array![lo, lw];
                    aj["load_abs"] = a.load_abs.into();
                }
                aj["aligned"] = aligned(a).into();
                if let Some(g) = &a.guard {
                    let mut gj = JsonValue::new_object();
                    gj["pre"] = g.pre.into();
                    gj["alu"] = g.alu.into();
                    gj["alu_imm"] = g.alu_imm.into();
                    gj["jmp"] = g.jmp.into();
                    gj["jmp_imm"] = g.jmp_imm.into();
                    gj["skip"] = g.skip.into();
                    gj["taken"] = g.taken().into();
                    aj["guard"] = gj;
                }
                adds.push(aj);
            }
            j["adds"] = JsonValue::Array(adds);
            j["loop_n"] = e.loop_n.into();
            j["loop_step"] = e.loop_step.into();
            j["loop_dec_first"] = e.loop_dec_first.into();
            j["pad"] = e.pad.into();
            j["allowed_split"] = e.allowed_split.into();
            j["in_callee"] = e.in_callee.into();
            j["helper_first"] = e.helper_first.into();
            if let Some(c) = &e.stack_check {
                let mut cj = JsonValue::new_object();
                cj["width"] = c.width.into();
                cj["half"] = c.half.into();
                cj["init"] = simcore::ju64(c.init);
                cj["addend"] = simcore::ju64(c.addend);
                cj["src_reg"] = c.src_reg.into();
                cj["misalign"] = c.misalign.into();
                j["stack_check"] = cj;
            }
            j["tail_load"] = match e.tail_load {
                Some((o, w)) => json::array![o, w],
                None => JsonValue::Null,
            };
            j["asm"] = disasm(&build_program(e, 0x1000_0000_0000)).into();
            ex.push(j);
        }
        o["execs"] = JsonValue::Array(ex);
        o["schedule"] = match &self.schedule {
            Some(s) => JsonValue::Array(s.iter().map(|x| (*x).into()).collect()),
            None => JsonValue::Null,
        };
        o
    }
    fn from_json(v: &JsonValue) -> Option<Scenario> {
        let region_len = v["region_len"].as_usize()?;
        let mut init = simcore::unhex(v["init"].as_str()?)?;
        init.resize(PAGE, 0);
        let mut execs = Vec::new();
        for e in v["execs"].members() {
            let mut adds = Vec::new();
            for a in e["adds"].members() {
                adds.push(Add {
                    width: a["width"].as_u8()?,
                    off: a["off"].as_u16()?,
                    addend: simcore::pu64(&a["addend"])?,
                    base_reg: a["base_reg"].as_u8()?,
                    src_reg: a["src_reg"].as_u8()?,
                    bias: a["bias"].as_i32()?,
                    via_lddw: a["via_lddw"].as_bool()?,
                    src_is_base: a["src_is_base"].as_bool().unwrap_or(false),
                    src_shape: a["src_shape"].as_u8().unwrap_or(0),
                    from_load: if a["from_load"].is_array() { Some((a["from_load"][0].as_u16()?, a["from_load"][1].as_u8()?)) } else { None },
                    load_abs: a["load_abs"].as_bool().unwrap_or(false),
                    guard: if a["guard"].is_object() {
                        let g = &a["guard"];
                        Some(Guard { pre: g["pre"].as_i32()?, alu: g["alu"].as_u8()?, alu_imm: g["alu_imm"].as_i32()?, jmp: g["jmp"].as_u8()?, jmp_imm: g["jmp_imm"].as_i32()?, skip: g["skip"].as_u8()? })
                    } else {
                        None
                    },
                });
            }
            execs.push(ExecSpec {
                engine: Engine::parse(e["engine"].as_str()?)?,
                reach: Reach::parse(e["reach"].as_str()?)?,
                adds,
                tail_load: if e["tail_load"].is_null() { None } else { Some((e["tail_load"][0].as_u16()?, e["tail_load"][1].as_u8()?)) },
                loop_n: e["loop_n"].as_u8().unwrap_or(1).clamp(1, 8),
                loop_step: e["loop_step"].as_u32().unwrap_or(0),
                loop_dec_first: e["loop_dec_first"].as_bool().unwrap_or(false),
                pad: e["pad"].as_u16().unwrap_or(0),
                allowed_split: e["allowed_split"].as_u8().unwrap_or(0),
                in_callee: e["in_callee"].as_bool().unwrap_or(false),
                helper_first: e["helper_first"].as_bool().unwrap_or(false),
                stack_check: if e["stack_check"].is_object() {
                    let c = &e["stack_check"];
                    Some(StackCheck { width: c["width"].as_u8()?, half: c["half"].as_u8()?, init: simcore::pu64(&c["init"])?, addend: simcore::pu64(&c["addend"])?, src_reg: c["src_reg"].as_u8()?, misalign: c["misalign"].as_u8().unwrap_or(0) })
                } else {
                    None
                },
            });
        }
        let schedule = if v["schedule"].is_null() { None } else { Some(v["schedule"].members().map(|x| x.as_u8().unwrap_or(0)).collect()) };
        Some(Scenario { region_len, init, execs, strategy: Strategy::Uniform, schedule, addr_dep: false })
    }
}

fn disasm(bytes: &[u8]) -> String {
    let b = bytes.to_vec();
    std::panic::catch_unwind(move || rbpf::disassembler::to_insn_vec(&b).iter().map(|i| i.desc.clone()).collect::<Vec<_>>().join("; ")).unwrap_or_else(|_| "<not disassemblable>".into())
}

// ---------------------------------------------------------------------------------------------
// Generation
// ---------------------------------------------------------------------------------------------

#[derive(Clone, Copy)]
struct Slot {
    off: u16,
    /// 8 = one u64 word; 4 = two u32 words sharing the 8-byte slot
    width: u8,
}

/// Set from the command line (`--deep`): the thorough tier uses up to 6 executions, 6 adds and
/// 6 loop iterations instead of 4 / 4 / 4.
static DEEP: std::sync::atomic::AtomicBool = std::sync::atomic::AtomicBool::new(false);

/// `--one-cpu`: the whole worker process is bound to one CPU before anything is built or compiled -
/// what a thread-per-core deployment or a one-CPU container looks like to code that asks how many
/// CPUs there are. Under the simulator only one execution runs at a time anyway, so nothing else
/// changes; the schedules explored and the event logs are the same.
static ONE_CPU: std::sync::atomic::AtomicBool = std::sync::atomic::AtomicBool::new(false);

fn bind_to_one_cpu() {
    // only counts if it took effect: the process may afterwards run on exactly one CPU
    let effective = unsafe {
        let mut allowed: libc::cpu_set_t = std::mem::zeroed();
        let mut cpu = libc::sched_getcpu();
        if libc::sched_getaffinity(0, std::mem::size_of::<libc::cpu_set_t>(), &mut allowed) == 0 && (cpu < 0 || !libc::CPU_ISSET(cpu as usize, &allowed)) {
            cpu = (0..libc::CPU_SETSIZE as usize).find(|c| libc::CPU_ISSET(*c, &allowed)).map(|c| c as i32).unwrap_or(-1);
        }
        let mut set: libc::cpu_set_t = std::mem::zeroed();
        if cpu >= 0 {
            libc::CPU_SET(cpu as usize, &mut set);
        }
        let mut now: libc::cpu_set_t = std::mem::zeroed();
        cpu >= 0
            && libc::sched_setaffinity(0, std::mem::size_of::<libc::cpu_set_t>(), &set) == 0
            && libc::sched_getaffinity(0, std::mem::size_of::<libc::cpu_set_t>(), &mut now) == 0
            && libc::CPU_COUNT(&now) == 1
    };
    ONE_CPU.store(effective, std::sync::atomic::Ordering::Relaxed);
}

fn generate(rng: &mut Rng) -> Scenario {
    let deep = DEEP.load(std::sync::atomic::Ordering::Relaxed);
    let region_len = *rng.pick(&[64usize, 256, 2048]);
    let mut init = vec![0u8; PAGE];
    for b in init.iter_mut().take(region_len) {
        *b = rng.next_u64() as u8;
    }
    // hot slots
    let nslots = rng.range(1, 3) as usize;
    let mut slots: Vec<Slot> = Vec::new();
    while slots.len() < nslots {
        let off = (rng.below((region_len / 8) as u64) * 8) as u16;
        if slots.iter().any(|s| s.off == off) {
            continue;
        }
        slots.push(Slot { off, width: if rng.chance(1, 2) { 8 } else { 4 } });
        // make carries and wrap-arounds likely
        if rng.chance(1, 2) {
            for i in 0..8 {
                init[off as usize + i] = 0xff;
            }
        }
    }
    let n = rng.range(2, if deep { 6 } else { 4 }) as usize;
    let engines_enabled: Vec<Engine> = {
        let mut v = Vec::new();
        for e in [Engine::Interp, Engine::Jit, Engine::Cl] {
            if rng.chance(3, 4) {
                v.push(e);
            }
        }
        if v.is_empty() {
            v.push(*rng.pick(&[Engine::Interp, Engine::Jit, Engine::Cl]));
        }
        v
    };
    let misaligned_enabled = rng.chance(1, 4);
    let mut execs = Vec::new();
    for _ in 0..n {
        let engine = *rng.pick(&engines_enabled);
        let reach = match engine {
            Engine::Interp => *rng.pick(&[Reach::RawPacket, Reach::Mbuff, Reach::Allowed, Reach::Allowed, Reach::Fixed]),
            // compiled x86-64 code has no bounds checks: it reaches the word by absolute address too
            Engine::Jit => *rng.pick(&[Reach::RawPacket, Reach::RawPacket, Reach::Mbuff, Reach::Allowed, Reach::Fixed]),
            Engine::Cl => *rng.pick(&[Reach::RawPacket, Reach::RawPacket, Reach::Mbuff, Reach::Fixed]),
        };
        let k = rng.range(1, if deep { 6 } else { 4 }) as usize;
        let mut adds = Vec::new();
        for _ in 0..k {
            let s = *rng.pick(&slots);
            // a slot is one u64 word or two u32 words; now and then the other view of it is added to
            // as well (a 32-bit add on half of a u64 word, a 64-bit add across two u32 words)
            let width = if rng.chance(1, 6) { 12 - s.width } else { s.width };
            let mut off = s.off + if width == 4 && rng.chance(1, 2) { 4 } else { 0 };
            if misaligned_enabled && engine == Engine::Interp && rng.chance(1, 4) {
                let m = rng.range(1, width as u64 - 1) as u16;
                if (off + m) as usize + width as usize <= region_len {
                    off += m;
                }
            }
            let addend = match rng.below(6) {
                0 => rng.range(1, 255),
                1 => rng.next_u64(),
                2 => (rng.next_u64() >> 1) | (1 << 63) | (1 << 31),
                3 => (rng.range(1, 0xffff) << 32) | rng.below(1 << 32),
                4 => (rng.range(1, 1000)).wrapping_neg(),
                _ => 0xffff_ffff,
            };
            // never 0 modulo the width: every atomic add changes its word
            let addend = if addend & mask(width) == 0 { addend | 1 } else { addend };
            // mov64 sign-extends an imm32: usable when the value round-trips
            let fits = addend as i64 as i32 as i64 as u64 == addend;
            let via_lddw = !fits || rng.chance(1, 3);
            // every general register can be the base, every one except r6 (the copy of the region
            // address) and the base itself the source: each pair is a different x86 encoding
            let base_reg = *rng.pick(&[1u8, 1, 6, 7, 8, 0, 2, 3, 4, 5, 9]);
            let mut src_reg = *rng.pick(&[2u8, 3, 4, 5, 9, 0, 1, 7, 8]);
            if src_reg == base_reg {
                src_reg = if base_reg == 2 { 3 } else { 2 };
            }
            let bias = if base_reg == 6 {
                0
            } else {
                match rng.below(6) {
                    0 => 0,
                    1 => (region_len as i32).min(64),
                    2 => -(rng.range(1, 200) as i32),
                    3 => (region_len as i32 / 2) & !7,
                    // displacements at the edge of the one-byte encoding: +128, -128, +120, -136
                    4 => off as i32 - *rng.pick(&[128i32, 120, 127 & !3, 136]),
                    _ => off as i32 + *rng.pick(&[128i32, 136, 124, 132]),
                }
            };
            let bias = if (off as i32 - bias) > 32000 || (off as i32 - bias) < -32000 { 0 } else { bias };
            // rarely: the same register is base and source
            let src_is_base = rng.chance(1, 16);
            // a conditional jump on a register computed right before the add
            let guard = if rng.chance(1, 5) {
                let pre = match rng.below(5) {
                    0 => 0,
                    1 => 1,
                    2 => -1,
                    3 => rng.range(2, 5) as i32,
                    _ => rng.next_u64() as i32,
                };
                let alu = *rng.pick(&[0x07u8, 0x17, 0x17, 0x47, 0x57, 0xa7, 0x04, 0x14, 0x44, 0x54, 0xa4]);
                let alu_imm = match rng.below(5) {
                    0 => 0,
                    1 => 1,
                    2 => pre,
                    3 => -1,
                    _ => rng.next_u64() as i32,
                };
                let jmp = (*rng.pick(&[0x15u8, 0x55, 0x15, 0x55, 0x25, 0x35, 0xa5, 0xb5, 0x45, 0x65, 0x75, 0xc5, 0xd5]) & 0xf0) | if rng.chance(1, 4) { 0x06 } else { 0x05 };
                let jmp_imm = match rng.below(4) {
                    0 | 1 => 0,
                    2 => 1,
                    _ => rng.next_u64() as i32,
                };
                // jeq/jne and the unsigned 64-bit comparisons only get non-negative immediates: the
                // interpreter zero-extends the immediate of these six, the compilers sign-extend it
                // (a matter of C01/C03, not of this check)
                let jmp_imm = if jmp & 7 == 5 && matches!(jmp & 0xf0, 0x10 | 0x50 | 0x20 | 0x30 | 0xa0 | 0xb0) { jmp_imm & 0x7fff_ffff } else { jmp_imm };
                let g = Guard { pre, alu, alu_imm, jmp, jmp_imm, skip: rng.range(1, 2) as u8 };
                // ... and the register tested is always the sign extension of its low half, so that
                // comparing 32 or 64 bits gives the same answer (the Cranelift translation compares
                // 32 bits for every jump: again a matter of C04, not of this check)
                let r = g.reg_value();
                if r == r as i32 as i64 as u64 {
                    Some(g)
                } else {
                    None
                }
            } else {
                None
            };
            // the source register may get its value in a roundabout way (only where the value allows)
            let src_shape = if src_is_base || !rng.chance(1, 4) {
                0
            } else {
                match rng.below(4) {
                    0 if addend >> 32 == 0 => 1,
                    1 if addend >> 32 == 0 => 2,
                    2 => 3,
                    3 if addend == addend as u32 as i32 as i64 as u64 => 4,
                    _ => 0,
                }
            };
            // sometimes the addend is data: loaded from one of the hot words right before the add
            let from_load = if !src_is_base && src_shape == 0 && rng.chance(1, 8) {
                let ls = *rng.pick(&slots);
                let lw = if ls.width == 8 && rng.chance(1, 2) { 8u8 } else { 4u8 };
                let loff = ls.off + if lw == 4 && rng.chance(1, 2) { 4 } else { 0 };
                let d = loff as i32 - bias;
                if (-32000..=32000).contains(&d) { Some((loff, lw)) } else { None }
            } else {
                None
            };
            // ... by an absolute packet load where the region is the packet (the value lands in r0)
            // (the interpreter bounds-checks every ldabs as an 8-byte access, whatever its width)
            let load_abs = from_load.map(|(lo, _)| lo as usize + 8 <= region_len).unwrap_or(false) && matches!(reach, Reach::RawPacket | Reach::Fixed) && rng.chance(1, 2);
            let (base_reg, src_reg) = if load_abs { (if base_reg == 0 { 7 } else { base_reg }, 0) } else { (base_reg, src_reg) };
            let bias = if base_reg == 7 && load_abs { bias } else { bias };
            adds.push(Add { width, off, addend, base_reg, src_reg, bias, via_lddw, src_is_base, src_shape, from_load, load_abs, guard });
        }
        let tail_load = if rng.chance(1, 2) {
            let s = *rng.pick(&slots);
            Some((s.off, s.width))
        } else {
            None
        };
        let loop_n = if rng.chance(1, 4) { rng.range(2, if deep { 6 } else { 4 }) as u8 } else { 1 };
        if loop_n > 1 {
            for a in adds.iter_mut() {
                a.guard = None;
            }
        }
        if loop_n > 1 || adds.iter().any(|a| a.guard.is_some()) {
            // r9 is the loop counter / the guard register
            for a in adds.iter_mut() {
                if a.base_reg == 9 {
                    a.base_reg = 7;
                    a.bias = 0;
                }
                if a.src_reg == 9 {
                    a.src_reg = if a.base_reg == 2 { 3 } else { 2 };
                }
            }
        }
        // rarely a long run of no-ops first: 50 (more than 127 bytes of machine code before the adds)
        // or 12 000 (more than 32 767 bytes, several code pages)
        let pad: u16 = match rng.below(if deep { 60 } else { 240 }) {
            0 => 12000,
            1..=4 => 50,
            _ => 0,
        };
        let allowed_split = if reach == Reach::Allowed && rng.chance(1, 2) { rng.range(1, 8) as u8 } else { 0 };
        let in_callee = engine != Engine::Cl && rng.chance(1, 5);
        let helper_first = rng.chance(1, 5);
        let mut loop_step = if loop_n > 1 && adds.len() == 1 && !adds[0].src_is_base && adds[0].from_load.is_none() && aligned(&adds[0]) && rng.chance(1, 2) { rng.range(1, 1 << 20) as u32 } else { 0 };
        let loop_dec_first = loop_n > 1 && rng.chance(1, 2);
        if loop_step > 0 && (0..=loop_n as u64).any(|k| adds[0].addend.wrapping_add(k * loop_step as u64) & mask(adds[0].width) == 0) {
            loop_step = 0; // every add must change its word (a compare-exchange that changes nothing reads as a failed one)
        }
        let stack_check = if rng.chance(1, 4) {
            let width = if rng.chance(1, 2) { 8 } else { 4 };
            // r8 carries the result to the end: keep it out of the adds
            for a in adds.iter_mut() {
                if a.base_reg == 8 {
                    a.base_reg = 7;
                    if a.src_reg == 7 {
                        a.src_reg = 2;
                    }
                }
                if a.src_reg == 8 {
                    a.src_reg = if a.base_reg == 2 { 3 } else { 2 };
                }
            }
            let init = if rng.chance(1, 2) { u64::MAX - rng.below(4) } else { rng.next_u64() };
            let half = if width == 4 && rng.chance(1, 2) { 4 } else { 0 };
            // (a misaligned add still lies inside the stack: at most [r10-9, r10-1))
            let misalign = if engine == Engine::Interp && rng.chance(1, 3) { rng.range(1, width as u64 - 1) as u8 } else { 0 };
            Some(StackCheck { width, half, init, addend: rng.next_u64() | 1, src_reg: *rng.pick(&[2u8, 3, 4, 5, 9, 0, 7]), misalign })
        } else {
            None
        };
        // after all the re-assignments above: the source is never the base (unless meant to be),
        // never r6, never the loop counter, never the register that carries the stack self-check
        let uses_r9 = adds.iter().any(|a| a.guard.is_some());
        for a in adds.iter_mut() {
            let reserved = |r: u8| r == 6 || r == a.base_reg || ((loop_n > 1 || uses_r9) && r == 9) || (stack_check.is_some() && r == 8);
            if !a.src_is_base && reserved(a.src_reg) {
                a.src_reg = *[2u8, 3, 4, 5].iter().find(|r| !reserved(**r)).unwrap();
            }
            if a.load_abs {
                // ldabs delivers in r0
                a.src_reg = 0;
                if a.base_reg == 0 {
                    a.base_reg = 7;
                }
            }
        }
        execs.push(ExecSpec { engine, reach, adds, tail_load, loop_n, loop_step, loop_dec_first, pad, allowed_split, in_callee, helper_first, stack_check });
    }
    let strategy = match rng.below(3) {
        0 => Strategy::Uniform,
        1 => Strategy::Sticky(rng.range(1, 8) as u8),
        _ => Strategy::Pct(rng.range(1, 4) as u8),
    };
    Scenario { region_len, init, execs, strategy, schedule: None, addr_dep: false }
}

// ---------------------------------------------------------------------------------------------
// Running one scenario
// ---------------------------------------------------------------------------------------------

#[derive(Clone, Debug, PartialEq, Eq)]
enum Outcome {
    Ok(u64),
    Err(String),
    Panic(String),
    Signal(i32),
    NotBuilt(String),
}
impl Outcome {
    fn code(&self) -> u8 {
        match self {
            Outcome::Ok(_) => 0,
            Outcome::Err(_) => 1,
            Outcome::Panic(_) => 2,
            Outcome::Signal(_) => 3,
            Outcome::NotBuilt(_) => 4,
        }
    }
    fn short(&self) -> String {
        match self {
            Outcome::Ok(v) => format!("Ok({:#x})", v),
            Outcome::Err(e) => format!("Err({})", e.lines().next().unwrap_or("").chars().take(80).collect::<String>()),
            Outcome::Panic(p) => format!("Panic({})", p.chars().take(80).collect::<String>()),
            Outcome::Signal(s) if *s == sched::RUNAWAY => format!("RanAway(more than {} accesses to the shared region or {} s of CPU)", sched::ACCESS_BUDGET, sched::CPU_BUDGET_S),
            Outcome::Signal(s) => format!("Signal({})", s),
            Outcome::NotBuilt(e) => format!("NotBuilt({})", e.chars().take(80).collect::<String>()),
        }
    }
}

enum Vm {
    Fixed(rbpf::EbpfVmFixedMbuff<'static>),
    Raw(rbpf::EbpfVmRaw<'static>),
    Mbuff(rbpf::EbpfVmMbuff<'static>),
    NoData(rbpf::EbpfVmNoData<'static>),
}

struct ThreadOut {
    /// solo pass, single-stepped executions only: add-form RMW instructions without LOCK in generated
    /// code, and how many instructions were looked at
    unlocked_generated: u32,
    stepped: u32,
    stepped_generated: u32,
    build: Outcome,
    solo: Outcome,
    conc: Outcome,
}

struct PassResult {
    events: Vec<Event>,
    effective: Vec<u8>,
    switches: u32,
    final_page: Vec<u8>,
    overflow: bool,
}

struct RunOutput {
    outs: Vec<ThreadOut>,
    solo: Vec<PassResult>,
    conc: PassResult,
}

/// Run with the trap flag set from here to the return of the execution: every instruction of the
/// compiled program (and of rbpf's wrapper around it) is looked at by the SIGTRAP handler.
fn exec_vm_stepped(me: usize, vm: &mut Vm, engine: Engine, region: (*mut u8, usize)) -> Result<u64, std::io::Error> {
    sim().step_mode[me] = true;
    unsafe { core::arch::asm!("pushfq", "or qword ptr [rsp], 0x100", "popfq") };
    let r = exec_vm(vm, engine, region);
    unsafe { core::arch::asm!("pushfq", "and qword ptr [rsp], -257", "popfq") };
    sim().step_mode[me] = false;
    r
}

fn exec_vm(vm: &mut Vm, engine: Engine, region: (*mut u8, usize)) -> Result<u64, std::io::Error> {
    let region_slice = || unsafe { std::slice::from_raw_parts_mut(region.0, region.1) };
    let empty = || unsafe { std::slice::from_raw_parts_mut(std::ptr::NonNull::<u8>::dangling().as_ptr(), 0) };
    unsafe {
        match (vm, engine) {
            (Vm::Fixed(vm), Engine::Interp) => vm.execute_program(region_slice()),
            (Vm::Fixed(vm), Engine::Jit) => vm.execute_program_jit(region_slice()),
            (Vm::Fixed(vm), Engine::Cl) => vm.execute_program_cranelift(region_slice()),
            (Vm::Raw(vm), Engine::Interp) => vm.execute_program(region_slice()),
            (Vm::Raw(vm), Engine::Jit) => vm.execute_program_jit(region_slice()),
            (Vm::Raw(vm), Engine::Cl) => vm.execute_program_cranelift(region_slice()),
            (Vm::Mbuff(vm), Engine::Interp) => vm.execute_program(empty(), region_slice()),
            (Vm::Mbuff(vm), Engine::Jit) => vm.execute_program_jit(empty(), region_slice()),
            (Vm::Mbuff(vm), Engine::Cl) => vm.execute_program_cranelift(empty(), region_slice()),
            (Vm::NoData(vm), Engine::Interp) => vm.execute_program(),
            (Vm::NoData(vm), Engine::Jit) => vm.execute_program_jit(),
            (Vm::NoData(vm), Engine::Cl) => vm.execute_program_cranelift(),
        }
    }
}

fn conv(g: Guarded<Result<u64, std::io::Error>>) -> Outcome {
    match g {
        Guarded::Done(Ok(v)) => Outcome::Ok(v),
        Guarded::Done(Err(e)) => Outcome::Err(e.to_string()),
        Guarded::Panic(p) => Outcome::Panic(p),
        Guarded::Signal(s) => Outcome::Signal(s),
    }
}

fn worker(me: usize, spec: &ExecSpec, region: (usize, usize), out: &mut ThreadOut) {
    let region = (region.0 as *mut u8, region.1);
    // ---- phase: build (VM construction and compilation; does not touch the page) ----
    wait_baton(me as i32);
    let prog: &'static [u8] = Box::leak(build_program(spec, region.0 as u64).into_boxed_slice());
    let mut built: Result<Vm, String> = (|| {
        let r = std::panic::catch_unwind(|| -> Result<Vm, std::io::Error> {
            Ok(match spec.reach {
                Reach::RawPacket => {
                    let mut vm = rbpf::EbpfVmRaw::new(Some(prog))?;
                    vm.register_helper(HELPER_KEY, noop_helper)?;
                    match spec.engine {
                        Engine::Jit => vm.jit_compile()?,
                        Engine::Cl => vm.cranelift_compile()?,
                        Engine::Interp => {}
                    }
                    Vm::Raw(vm)
                }
                Reach::Fixed => {
                    let mut vm = rbpf::EbpfVmFixedMbuff::new(Some(prog), 0x40, 0x50)?;
                    vm.register_helper(HELPER_KEY, noop_helper)?;
                    match spec.engine {
                        Engine::Jit => vm.jit_compile()?,
                        Engine::Cl => vm.cranelift_compile()?,
                        Engine::Interp => {}
                    }
                    Vm::Fixed(vm)
                }
                Reach::Mbuff => {
                    let mut vm = rbpf::EbpfVmMbuff::new(Some(prog))?;
                    vm.register_helper(HELPER_KEY, noop_helper)?;
                    match spec.engine {
                        Engine::Jit => vm.jit_compile()?,
                        Engine::Cl => vm.cranelift_compile()?,
                        Engine::Interp => {}
                    }
                    Vm::Mbuff(vm)
                }
                Reach::Allowed => {
                    // the memory is registered on a VM that already has its program, or first (the
                    // program is then loaded afterwards: the registration must still stand)
                    let register_first = (spec.allowed_split as usize + spec.adds.len()) % 2 == 1;
                    let mut vm = rbpf::EbpfVmNoData::new(if register_first { None } else { Some(prog) })?;
                    let a = region.0 as u64;
                    let len = region.1 as u64;
                    let (q, h) = ((len / 4) & !7, (len / 2) & !7);
                    let ranges: Vec<std::ops::Range<u64>> = match spec.allowed_split {
                        1 => vec![a..a + len, a + q..a + q + 8],
                        2 => vec![a + q..a + q + 8, a..a + len],
                        3 => vec![a..a + h, a + h..a + len],
                        4 => vec![a..a + len, a..a + len],
                        5 => vec![a..a + h + 8, a + q..a + len],
                        // three registrations and more: two disjoint parts, then one range over both
                        6 => vec![a + 8..a + 16, a + h..a + h + 8, a..a + len],
                        7 => vec![a..a + q, a + q..a + h, a + h..a + len],
                        8 => vec![a + q..a + q + 8, a + h + 8..a + h + 16, a + 8..a + len - 8, a..a + 16, a + len - 16..a + len],
                        _ => vec![a..a + len],
                    };
                    for r in ranges {
                        vm.register_allowed_memory(r);
                    }
                    if register_first {
                        vm.set_program(prog)?;
                    }
                    vm.register_helper(HELPER_KEY, noop_helper)?;
                    match spec.engine {
                        Engine::Jit => vm.jit_compile()?,
                        Engine::Cl => vm.cranelift_compile()?,
                        Engine::Interp => {}
                    }
                    Vm::NoData(vm)
                }
            })
        });
        match r {
            Ok(Ok(vm)) => Ok(vm),
            Ok(Err(e)) => Err(e.to_string()),
            Err(_) => Err("panic while building the VM".to_string()),
        }
    })();
    out.build = match &built {
        Ok(_) => Outcome::Ok(0),
        Err(e) => Outcome::NotBuilt(e.clone()),
    };
    pass_baton(CTRL);
    // ---- phase: solo ----
    wait_baton(me as i32);
    // alone, a compiled execution with an atomic add on its own stack is single-stepped throughout: the
    // stack is not on the monitored page, so this is the only way to see how that add is encoded
    let stepped = spec.engine != Engine::Interp && spec.stack_check.is_some();
    out.solo = match &mut built {
        Ok(vm) if stepped => conv(guarded(me, || exec_vm_stepped(me, vm, spec.engine, region))),
        Ok(vm) => conv(guarded(me, || exec_vm(vm, spec.engine, region))),
        Err(e) => Outcome::NotBuilt(e.clone()),
    };
    // (an execution that unwound or was recovered from a fatal signal skipped the instruction that
    // clears the trap flag: clear it here, while the handler still knows this thread is stepping)
    unsafe { core::arch::asm!("pushfq", "and qword ptr [rsp], -257", "popfq") };
    sim().step_mode[me] = false;
    out.unlocked_generated = sim().unlocked_generated[me];
    out.stepped = sim().stepped[me];
    out.stepped_generated = sim().stepped_generated[me];
    finish(me);
    // ---- phase: concurrent ----
    wait_baton(me as i32);
    out.conc = match &mut built {
        Ok(vm) => conv(guarded(me, || exec_vm(vm, spec.engine, region))),
        Err(e) => Outcome::NotBuilt(e.clone()),
    };
    finish(me);
    // the VM (and its executable pages) is dropped here, by the thread that built it; the
    // program bytes are leaked deliberately (a few hundred bytes per execution).
    drop(built);
}

fn finish(me: usize) {
    let s = sim();
    s.state[me] = 2;
    let next = s.choose(-1);
    pass_baton(next);
}

fn run_scenario(sc: &Scenario, rng: &mut Rng) -> RunOutput {
    sched::cpu_budget(sched::CPU_BUDGET_S);
    let out = run_scenario_inner(sc, rng);
    sched::cpu_budget(0);
    out
}

fn run_scenario_inner(sc: &Scenario, rng: &mut Rng) -> RunOutput {
    let s = sim();
    let n = sc.execs.len();
    s.nthreads = n;
    s.state = [0; MAXT];
    s.active = false;
    let region = (s.prog_view as usize, sc.region_len);
    let mut outs: Vec<ThreadOut> = (0..n).map(|_| ThreadOut { unlocked_generated: 0, stepped: 0, stepped_generated: 0, build: Outcome::Ok(0), solo: Outcome::Ok(0), conc: Outcome::Ok(0) }).collect();
    let mut solo: Vec<PassResult> = Vec::new();
    let mut conc = PassResult { events: Vec::new(), effective: Vec::new(), switches: 0, final_page: Vec::new(), overflow: false };
    pass_baton(CTRL);
    std::thread::scope(|scope| {
        for (i, (spec, out)) in sc.execs.iter().zip(outs.iter_mut()).enumerate() {
            scope.spawn(move || worker(i, spec, region, out));
        }
        // build, one thread at a time
        for i in 0..n {
            pass_baton(i as i32);
            wait_baton(CTRL);
        }
        // solo pass: each execution alone on a freshly reset page
        for i in 0..n {
            page_reset(&sc.init);
            page_protect(false);
            s.state = [0; MAXT];
            s.state[i] = 1;
            s.begin_phase(Some(&[]), Strategy::Uniform);
            s.active = true;
            pass_baton(i as i32);
            wait_baton(CTRL);
            s.active = false;
            solo.push(PassResult { events: s.events.clone(), effective: s.effective.clone(), switches: s.switches, final_page: page_snapshot(), overflow: s.overflow });
        }
        // concurrent pass
        page_reset(&sc.init);
        page_protect(false);
        s.state = [0; MAXT];
        for i in 0..n {
            s.state[i] = 1;
        }
        match &sc.schedule {
            Some(list) => s.begin_phase(Some(list), sc.strategy),
            None => {
                s.rng = rng.clone();
                s.begin_phase(None, sc.strategy);
            }
        }
        s.active = true;
        let first = s.choose(-1);
        pass_baton(first);
        wait_baton(CTRL);
        s.active = false;
        conc = PassResult { events: s.events.clone(), effective: s.effective.clone(), switches: s.switches, final_page: page_snapshot(), overflow: s.overflow };
    });
    RunOutput { outs, solo, conc }
}

// ---------------------------------------------------------------------------------------------
// Oracle
// ---------------------------------------------------------------------------------------------

#[derive(Clone, Debug)]
struct Violation {
    class: String,
    detail: String,
}

fn mask(w: u8) -> u64 {
    if w >= 8 {
        u64::MAX
    } else {
        (1u64 << (8 * w as u32)) - 1
    }
}

/// A write event: a store, an add-form RMW, or any other RMW / unclassified step that changed
/// memory (a compare-exchange that failed leaves memory unchanged and is only a read; addends
/// are never 0 modulo the width, so a successful one always changes the word).
fn is_write(e: &Event) -> bool {
    match e.class {
        EvClass::Store => true,
        EvClass::Rmw => e.add_form || e.before != e.after || e.stray >= 0,
        EvClass::Unclassified => e.before != e.after || e.stray >= 0,
        _ => false,
    }
}

/// The addend each write of one execution should have carried, given everything that execution did
/// to the shared page in order (`events`): the constant of the program, or - for an add whose source
/// was loaded from the page - what the program's load of that word returned, or-ed with 1 (None if
/// no such load was seen: the add is then judged by what it did, not by what it should have added).
fn addends_in_effect(exp: &[Add], events: &[&Event]) -> Vec<Option<u64>> {
    let mut out = Vec::new();
    let mut k = 0usize;
    let mut last_load: BTreeMap<(u16, u8), u64> = BTreeMap::new();
    for e in events {
        if e.class == EvClass::Load {
            // the program's own load is the FIRST one of that word after the execution's previous
            // write (an implementation of the add may load its target word too, e.g. a CAS loop)
            last_load.entry((e.off, e.width)).or_insert(e.before);
        }
        if is_write(e) {
            if k < exp.len() {
                out.push(match exp[k].from_load {
                    None => Some(exp[k].addend),
                    Some(key) => last_load.get(&key).map(|v| v | 1),
                });
            }
            last_load.clear();
            k += 1;
        }
    }
    out
}

fn delta(e: &Event) -> u64 {
    e.after.wrapping_sub(e.before) & mask(e.width)
}

fn ev_desc(e: &Event) -> String {
    format!(
        "{}{} {}B @{} {:#x}->{:#x} [{:02x} {:02x}]{}",
        match e.class {
            EvClass::Load => "load",
            EvClass::Store => "store",
            EvClass::Rmw => "rmw",
            EvClass::RmwRead => "rmw-read",
            EvClass::Unclassified => "unclassified",
        },
        if e.lock { "(lock)" } else if e.split { "(split)" } else { "" },
        e.width,
        e.off,
        e.before,
        e.after,
        e.sig[0],
        e.sig[1],
        if e.writer_in_window { " writer-in-window" } else { "" }
    )
}

/// The adds an execution is expected to carry out, in order, and whether it must end in Err.
fn expected_writes(spec: &ExecSpec) -> (Vec<Add>, bool) {
    let mut v = Vec::new();
    if let Some(c) = &spec.stack_check {
        if c.misalign != 0 && spec.engine == Engine::Interp {
            return (v, true);
        }
    }
    let varying = spec.loop_n > 1 && spec.loop_step > 0 && spec.adds.len() == 1 && !spec.adds[0].src_is_base;
    for k in 0..spec.loop_n.max(1) {
        let mut skip = 0u8;
        for a in &spec.adds {
            if skip > 0 {
                skip -= 1; // jumped over by the guard of an earlier add
                continue;
            }
            if !aligned(a) && spec.engine == Engine::Interp {
                return (v, true);
            }
            if let Some(g) = &a.guard {
                if guards_active(spec) && g.taken() {
                    skip = g.skip;
                }
            }
            let mut a = a.clone();
            if varying {
                // the register was loaded once (mov64 sign-extends, lddw loads all 64 bits) and grows
                let steps = if spec.loop_dec_first { k as u64 + 1 } else { k as u64 };
                a.addend = a.addend.wrapping_add(steps * spec.loop_step as u64);
            }
            v.push(a);
        }
    }
    (v, false)
}

fn check(sc: &Scenario, out: &RunOutput) -> Option<Violation> {
    let n = sc.execs.len();
    // ---- solo pass: each execution alone does exactly what its program says -----------------------
    for i in 0..n {
        let spec = &sc.execs[i];
        let eng = spec.engine.name();
        if let Outcome::NotBuilt(_) = out.outs[i].build {
            continue; // cannot be built at all: not a C18 matter (counted)
        }
        if out.outs[i].unlocked_generated > 0 {
            return Some(Violation { class: format!("xadd-not-locked/{}", eng), detail: format!("execution #{} alone, single-stepped: the generated code executed {} add instruction(s) with a memory destination and without a LOCK prefix (its atomic add on the stack slot at r10-16 is the only add to memory in the program besides those on the shared region)", i, out.outs[i].unlocked_generated) });
        }
        let (exp, must_err) = expected_writes(spec);
        let evs: Vec<&Event> = out.solo[i].events.iter().filter(|e| is_write(e)).collect();
        match (&out.outs[i].solo, must_err) {
            (Outcome::Signal(_), _) => return Some(Violation { class: format!("execution-crashed/{}", eng), detail: format!("execution #{} alone: {}", i, out.outs[i].solo.short()) }),
            (Outcome::Panic(p), _) => return Some(Violation { class: format!("execution-crashed/{}", eng), detail: format!("execution #{} alone panicked: {}", i, p) }),
            (Outcome::Ok(_), true) => {
                return Some(Violation { class: "misaligned-not-refused".into(), detail: format!("execution #{} ({}) contains a misaligned atomic add and returned {}; events: {}", i, eng, out.outs[i].solo.short(), evs.iter().map(|e| ev_desc(e)).collect::<Vec<_>>().join(", ")) });
            }
            (Outcome::Err(e), false) => {
                return Some(Violation { class: format!("aligned-xadd-refused/{}", eng), detail: format!("execution #{} has only naturally aligned atomic adds inside its region and returned Err: {}", i, e.lines().next().unwrap_or("")) });
            }
            _ => {}
        }
        if let (Some(c), Outcome::Ok(v)) = (&spec.stack_check, &out.outs[i].solo) {
            if c.misalign == 0 && *v != c.expected() {
                return Some(Violation { class: format!("stack-xadd-wrong/{}/{}", eng, c.width as u32 * 8), detail: format!("execution #{}: a {}-bit atomic add of {:#x} on the stack slot at r10-16{} holding {:#x}, folded with its two neighbours, gave {:#x}; expected {:#x}", i, c.width as u32 * 8, c.addend, if c.half == 4 { "+4" } else { "" }, c.init, v, c.expected()) });
            }
        }
        if must_err && evs.len() > exp.len() {
            return Some(Violation { class: "misaligned-touched-memory".into(), detail: format!("execution #{} ({}): the refused misaligned atomic add still wrote: {}", i, eng, ev_desc(evs[exp.len()])) });
        }
        if evs.len() != exp.len() {
            return Some(Violation { class: format!("xadd-count/{}", eng), detail: format!("execution #{} alone produced {} write events for {} atomic adds: {}", i, evs.len(), exp.len(), evs.iter().map(|e| ev_desc(e)).collect::<Vec<_>>().join(", ")) });
        }
        // Alone, the word an addend is loaded from holds exactly what this execution's earlier adds
        // made of it: the expectation comes from the model, not from the load the engine performed
        // (an engine that serves the load from a value read before an earlier add is wrong here).
        let in_effect: Vec<Option<u64>> = {
            let mut mem = sc.init.clone();
            let rd = |mem: &[u8], off: usize, w: usize| -> u64 {
                let mut cur = 0u64;
                for k in (0..w).rev() {
                    cur = (cur << 8) | mem[off + k] as u64;
                }
                cur
            };
            exp.iter()
                .map(|a| {
                    let addend = match a.from_load {
                        None => a.addend,
                        Some((lo, lw)) => rd(&mem, lo as usize, lw as usize) | 1,
                    };
                    let nv = rd(&mem, a.off as usize, a.width as usize).wrapping_add(addend) & mask(a.width);
                    for k in 0..a.width as usize {
                        mem[a.off as usize + k] = (nv >> (8 * k)) as u8;
                    }
                    Some(addend)
                })
                .collect()
        };
        for (j, (e, a)) in evs.iter().zip(exp.iter()).enumerate() {
            if e.stray >= 0 {
                return Some(Violation { class: format!("neighbour-clobbered/{}", eng), detail: format!("execution #{} add #{} ({}-bit at offset {}): byte at offset {} outside the word changed ({})", i, j, a.width * 8, a.off, e.stray, ev_desc(e)) });
            }
            if e.class != EvClass::Unclassified && (e.off != a.off || e.width != a.width) {
                return Some(Violation { class: format!("wrong-width-or-offset/{}", eng), detail: format!("execution #{} add #{}: program says {}-bit at offset {}, the machine did {}", i, j, a.width * 8, a.off, ev_desc(e)) });
            }
            let want = match in_effect.get(j).copied().flatten() {
                Some(v) => v & mask(a.width),
                None => continue, // the load this addend comes from was not seen: judged by the counts above
            };
            let w = if e.class == EvClass::Unclassified { a.width } else { e.width };
            let got = e.after.wrapping_sub(e.before) & mask(w);
            if got != want {
                return Some(Violation { class: format!("not-the-source-register/{}/{}", eng, a.width * 8), detail: format!("execution #{} add #{}: the word changed by {:#x}, the source register holds {:#x} (truncated {:#x}); {}", i, j, got, a.addend, want, ev_desc(e)) });
            }
        }
    }
    // ---- concurrent pass --------------------------------------------------------------------------
    if out.conc.overflow {
        return None;
    }
    for i in 0..n {
        let spec = &sc.execs[i];
        let eng = spec.engine.name();
        if let Outcome::NotBuilt(_) = out.outs[i].build {
            continue;
        }
        if out.outs[i].conc.code() != out.outs[i].solo.code() {
            let class = if matches!(out.outs[i].conc, Outcome::Signal(_) | Outcome::Panic(_)) { format!("execution-crashed/{}", eng) } else { format!("outcome-differs-under-concurrency/{}", eng) };
            return Some(Violation { class, detail: format!("execution #{}: alone {}, concurrently {}", i, out.outs[i].solo.short(), out.outs[i].conc.short()) });
        }
        let solo: Vec<&Event> = out.solo[i].events.iter().filter(|e| is_write(e)).collect();
        let conc: Vec<&Event> = out.conc.events.iter().filter(|e| e.thread as usize == i && is_write(e)).collect();
        let (exp_i, _) = expected_writes(spec);
        let all_c: Vec<&Event> = out.conc.events.iter().filter(|e| e.thread as usize == i).collect();
        let in_effect_c = addends_in_effect(&exp_i, &all_c);
        if solo.len() != conc.len() {
            return Some(Violation { class: format!("xadd-count/{}", eng), detail: format!("execution #{}: {} write events alone, {} concurrently", i, solo.len(), conc.len()) });
        }
        for (j, (s, c)) in solo.iter().zip(conc.iter()).enumerate() {
            if c.stray >= 0 {
                return Some(Violation { class: format!("neighbour-clobbered/{}", eng), detail: format!("execution #{} write #{}: byte at offset {} outside the word changed ({})", i, j, c.stray, ev_desc(c)) });
            }
            if s.off != c.off || s.width != c.width {
                return Some(Violation { class: format!("wrong-width-or-offset/{}", eng), detail: format!("execution #{} write #{}: alone {}, concurrently {}", i, j, ev_desc(s), ev_desc(c)) });
            }
            let data_dependent = exp_i.get(j).map(|a| a.from_load.is_some()).unwrap_or(false);
            let delta_wanted = if data_dependent {
                match in_effect_c.get(j).copied().flatten() {
                    Some(v) => v & mask(c.width),
                    None => delta(c),
                }
            } else {
                delta(s)
            };
            if delta_wanted != delta(c) {
                return Some(Violation {
                    class: format!("lost-update/{}/{}", eng, c.width as u32 * 8),
                    detail: format!(
                        "execution #{} write #{} at offset {}: {} {:#x}, in this schedule the word changes by {:#x} ({}){}",
                        i,
                        j,
                        c.off,
                        if data_dependent { "its source register was loaded from the page right before and holds" } else { "alone it changes the word by" },
                        delta_wanted,
                        delta(c),
                        ev_desc(c),
                        if c.split { format!(": the read-modify-write is not LOCKed; it read {:#x}, another execution then changed the word to {:#x}, and it stored its stale sum", c.stale, c.before) } else { String::new() }
                    ),
                });
            }
        }
    }
    // final contents: the initial page with every add carried out in the order the writes happened
    // (adds of different widths on one slot do not commute: a 32-bit add drops the carry that a
    // 64-bit add propagates)
    let mut want = sc.init.clone();
    let mut plans: Vec<(Vec<Add>, Vec<Option<u64>>, usize)> = Vec::new();
    for i in 0..n {
        let (exp, _) = expected_writes(&sc.execs[i]);
        let all_c: Vec<&Event> = out.conc.events.iter().filter(|e| e.thread as usize == i).collect();
        let in_effect_c = addends_in_effect(&exp, &all_c);
        plans.push((exp, in_effect_c, 0));
    }
    for e in out.conc.events.iter().filter(|e| is_write(e)) {
        let i = e.thread as usize;
        if let Outcome::NotBuilt(_) = out.outs[i].build {
            continue;
        }
        let (exp, in_effect_c, next) = &mut plans[i];
        let j = *next;
        *next += 1;
        let a = match exp.get(j) {
            Some(a) => a,
            None => continue, // more writes than adds: reported above as xadd-count
        };
        let off = a.off as usize;
        let w = a.width as usize;
        let mut cur = 0u64;
        for k in (0..w).rev() {
            cur = (cur << 8) | want[off + k] as u64;
        }
        let addend = match (a.from_load, in_effect_c.get(j).copied().flatten()) {
            (None, _) => a.addend,
            (Some(_), Some(v)) => v,
            // the load was not seen as an event of its own: take what the write did
            (Some(_), None) => delta(e),
        };
        let nv = cur.wrapping_add(addend) & mask(a.width);
        for k in 0..w {
            want[off + k] = (nv >> (8 * k)) as u8;
        }
    }
    if want != out.conc.final_page {
        let pos = (0..PAGE).find(|i| want[*i] != out.conc.final_page[*i]).unwrap();
        let slot = pos & !7;
        return Some(Violation { class: "lost-update/final-sum".into(), detail: format!("after all executions the 8 bytes at offset {} hold {} ; initial value plus the sum of all addends is {}", slot, simcore::hex(&out.conc.final_page[slot..slot + 8]), simcore::hex(&want[slot..slot + 8])) });
    }
    None
}

// ---------------------------------------------------------------------------------------------
// Statistics
// ---------------------------------------------------------------------------------------------

#[derive(Default)]
struct Stats {
    counters: BTreeMap<String, u64>,
    sigs: BTreeSet<u64>,
    nontrivial: u64,
}

impl Stats {
    fn inc(&mut self, k: &str, n: u64) {
        *self.counters.entry(k.to_string()).or_insert(0) += n;
    }
}

/// (event-log hash, schedule signature, non-trivial?)
fn summarise(sc: &Scenario, out: &RunOutput, st: &mut Stats) -> (u64, u64, bool) {
    let mut log = Fnv::new();
    let mut sig = Fnv::new();
    for (i, o) in out.outs.iter().enumerate() {
        log.byte(o.build.code());
        log.byte(o.solo.code());
        log.byte(o.conc.code());
        for e in &out.solo[i].events {
            log.byte(e.class as u8);
            log.u64(e.off as u64);
            log.u64(e.before);
            log.u64(e.after);
        }
        if let Outcome::NotBuilt(_) = o.build {
            st.inc("executions_not_buildable", 1);
        }
    }
    for e in &out.conc.events {
        log.byte(e.thread);
        log.byte(e.class as u8);
        log.byte(e.lock as u8);
        log.u64(e.off as u64);
        log.u64(e.before);
        log.u64(e.after);
        sig.byte(e.thread);
        sig.byte(sc.execs[e.thread as usize].engine as u8);
        sig.byte(e.class as u8);
        sig.u64(e.off as u64);
        sig.byte(e.width);
    }
    for d in &out.conc.effective {
        log.byte(*d);
    }
    log.bytes(&out.conc.final_page[..sc.region_len]);
    // reach probes
    st.inc("context_switches", out.conc.switches as u64);
    st.inc("scheduling_decisions", out.conc.effective.len() as u64);
    st.inc("intercepted_accesses", out.conc.events.len() as u64);
    let mut by_word: BTreeMap<(u16, u8), Vec<(usize, usize)>> = BTreeMap::new(); // word -> [(position, thread)]
    for (pos, e) in out.conc.events.iter().enumerate() {
        let eng = sc.execs[e.thread as usize].engine.name();
        match e.class {
            EvClass::Rmw => {
                if e.lock {
                    st.inc(&format!("locked_rmw/{}/{:02x}{:02x}", eng, e.sig[0], e.sig[1]), 1);
                } else {
                    st.inc(&format!("split_unlocked_rmw/{}", eng), 1);
                    if e.writer_in_window {
                        st.inc("writer_inside_rmw_window", 1);
                    }
                }
                if !e.add_form {
                    st.inc("rmw_not_add_form", 1);
                }
            }
            EvClass::Store => st.inc(&format!("plain_store/{}", eng), 1),
            EvClass::Unclassified => st.inc("unclassified_accesses", 1),
            _ => {}
        }
        if is_write(e) {
            by_word.entry((e.off & !7, 8)).or_default().push((pos, e.thread as usize));
        }
    }
    let mut nontrivial = false;
    let mut mixed = false;
    for v in by_word.values() {
        let threads: BTreeSet<usize> = v.iter().map(|x| x.1).collect();
        if threads.len() >= 2 {
            // interleaved: some thread's writes to this slot are not contiguous in the slot's order,
            // or another thread's access sits between two accesses of one thread
            let order: Vec<usize> = v.iter().map(|x| x.1).collect();
            let mut changes = 0;
            for k in 1..order.len() {
                if order[k] != order[k - 1] {
                    changes += 1;
                }
            }
            if changes >= threads.len() {
                nontrivial = true;
            }
            let engines: BTreeSet<u8> = threads.iter().map(|t| sc.execs[*t].engine as u8).collect();
            if engines.len() >= 2 {
                mixed = true;
            }
        }
    }
    if mixed {
        st.inc("runs_with_two_engines_on_one_word", 1);
    }
    // a switch between two XADDs of one execution
    let mut last_write_thread: Option<usize> = None;
    let mut seen_other_since: [bool; MAXT] = [false; MAXT];
    let mut wrote_once: [bool; MAXT] = [false; MAXT];
    let mut between = false;
    for e in out.conc.events.iter().filter(|e| is_write(e)) {
        let t = e.thread as usize;
        if wrote_once[t] && seen_other_since[t] {
            between = true;
        }
        wrote_once[t] = true;
        seen_other_since[t] = false;
        for (k, s) in seen_other_since.iter_mut().enumerate() {
            if k != t {
                *s = true;
            }
        }
        last_write_thread = Some(t);
    }
    let _ = last_write_thread;
    if between {
        st.inc("runs_with_switch_between_two_xadds_of_one_execution", 1);
    }
    for (i, spec) in sc.execs.iter().enumerate() {
        st.inc(&format!("executions/{}/{}", spec.engine.name(), spec.reach.name()), 1);
        if guards_active(spec) {
            for a in &spec.adds {
                if let Some(g) = &a.guard {
                    st.inc(if g.taken() { "guard_after_xadd_taken" } else { "guard_after_xadd_not_taken" }, 1);
                }
            }
        }
        if spec.loop_n > 1 {
            st.inc(if spec.loop_dec_first { "loops_counter_decremented_before_the_xadd" } else { "loops_counter_decremented_after_the_xadd" }, 1);
        }
        if spec.in_callee {
            st.inc("executions_with_xadd_in_local_function", 1);
        }
        if spec.pad > 0 {
            st.inc(&format!("executions_with_{}_instructions_before_the_adds", spec.pad), 1);
        }
        if spec.allowed_split > 0 {
            st.inc(&format!("allowed_memory_registered_as/{}", ["", "whole_then_nested", "nested_then_whole", "adjacent_halves", "whole_twice", "overlapping", "two_disjoint_then_whole", "three_adjacent", "five_ranges"][spec.allowed_split as usize]), 1);
        }
        for a in &spec.adds {
            if a.from_load.is_some() {
                st.inc("adds_whose_source_was_loaded_from_the_shared_page", 1);
            }
            if a.src_shape != 0 {
                st.inc(&format!("source_register_shaped/{}", ["", "or32", "add32", "stack_round_trip", "lsh_arsh"][a.src_shape as usize]), 1);
            }
        }
        if spec.helper_first {
            st.inc("executions_with_helper_call_before_xadd", 1);
        }
        if spec.stack_check.is_some() {
            st.inc("executions_with_stack_xadd_self_check", 1);
        }
        if out.outs[i].stepped > 0 {
            st.inc("executions_single_stepped_throughout", 1);
            st.inc("instructions_looked_at_while_single_stepping", out.outs[i].stepped as u64);
            st.inc("instructions_decoded_inside_generated_code", out.outs[i].stepped_generated as u64);
            if out.outs[i].stepped_generated == 0 {
                st.inc("single_stepped_executions_that_never_entered_generated_code", 1);
            }
        }
        if matches!(out.outs[i].solo, Outcome::Signal(s) if s == sched::RUNAWAY) {
            st.inc("runaway_executions_ended_by_budget", 1);
        }
        if spec.adds.iter().any(|a| !aligned(a)) && spec.engine == Engine::Interp {
            st.inc("executions_with_misaligned_xadd", 1);
            if matches!(out.outs[i].solo, Outcome::Err(_)) {
                st.inc("misaligned_xadd_refused", 1);
            }
        }
    }
    (log.finish(), sig.finish(), nontrivial)
}

// ---------------------------------------------------------------------------------------------
// Minimisation
// ---------------------------------------------------------------------------------------------

fn eval(sc: &Scenario) -> (Option<Violation>, RunOutput) {
    let mut dummy = Rng::new(0);
    let out = run_scenario(sc, &mut dummy);
    (check(sc, &out), out)
}

fn same_class(v: &Option<Violation>, class: &str) -> bool {
    v.as_ref().map(|v| v.class == class).unwrap_or(false)
}

/// `sc` must carry an explicit schedule. Fewer executions, fewer adds, then fewest context switches.
fn minimise(sc: &Scenario, class: &str) -> (Scenario, usize) {
    let mut cur = sc.clone();
    let mut evals = 0usize;
    // every variant that runs into the CPU budget costs seconds: give up on minimising after a few
    let fired0 = sched::WATCHDOG_FIRED.load(std::sync::atomic::Ordering::Relaxed);
    let budget = || if sched::WATCHDOG_FIRED.load(std::sync::atomic::Ordering::Relaxed) - fired0 > 1 { 0usize } else { 400usize };
    // long no-op prefixes first: every later variant is then cheap to compile
    for t in 0..cur.execs.len() {
        if cur.execs[t].pad > 0 && evals < budget() {
            let mut cand = cur.clone();
            cand.execs[t].pad = 0;
            evals += 1;
            let (v, out) = eval(&cand);
            if same_class(&v, class) {
                cand.schedule = Some(out.conc.effective.clone());
                cur = cand;
            }
        }
    }
    // drop executions (thread ids in the schedule are remapped)
    let mut i = 0;
    while i < cur.execs.len() && cur.execs.len() > 1 && evals < budget() {
        let mut cand = cur.clone();
        cand.execs.remove(i);
        if let Some(s) = cand.schedule.as_mut() {
            s.retain(|d| *d as usize != i);
            for d in s.iter_mut() {
                if *d as usize > i {
                    *d -= 1;
                }
            }
        }
        evals += 1;
        let (v, out) = eval(&cand);
        if same_class(&v, class) {
            cand.schedule = Some(out.conc.effective.clone());
            cur = cand;
        } else {
            i += 1;
        }
    }
    // drop adds
    for t in 0..cur.execs.len() {
        let mut j = 0;
        while j < cur.execs[t].adds.len() && cur.execs[t].adds.len() > 1 && evals < budget() {
            let mut cand = cur.clone();
            cand.execs[t].adds.remove(j);
            evals += 1;
            let (v, out) = eval(&cand);
            if same_class(&v, class) {
                cand.schedule = Some(out.conc.effective.clone());
                cur = cand;
            } else {
                j += 1;
            }
        }
        if cur.execs[t].tail_load.is_some() && evals < budget() {
            let mut cand = cur.clone();
            cand.execs[t].tail_load = None;
            evals += 1;
            let (v, out) = eval(&cand);
            if same_class(&v, class) {
                cand.schedule = Some(out.conc.effective.clone());
                cur = cand;
            }
        }
    }
    // fewest context switches: make decision k repeat decision k-1 where the violation survives
    let mut k = 1;
    while evals < budget() {
        let sched = cur.schedule.clone().unwrap_or_default();
        if k >= sched.len() {
            break;
        }
        if sched[k] == sched[k - 1] {
            k += 1;
            continue;
        }
        let mut cand = cur.clone();
        let mut s2 = sched.clone();
        s2[k] = s2[k - 1];
        cand.schedule = Some(s2);
        evals += 1;
        let (v, out) = eval(&cand);
        if same_class(&v, class) && count_switches(&out.conc.effective) < count_switches(&sched) {
            cand.schedule = Some(out.conc.effective.clone());
            cur = cand;
        } else {
            k += 1;
        }
    }
    // drop guards and the alternative loop shape
    for t in 0..cur.execs.len() {
        for j in 0..cur.execs[t].adds.len() {
            if cur.execs[t].adds[j].guard.is_none() || evals >= budget() {
                continue;
            }
            let mut cand = cur.clone();
            cand.execs[t].adds[j].guard = None;
            evals += 1;
            let (v, out) = eval(&cand);
            if same_class(&v, class) {
                cand.schedule = Some(out.conc.effective.clone());
                cur = cand;
            }
        }
        if cur.execs[t].loop_dec_first && evals < budget() {
            let mut cand = cur.clone();
            cand.execs[t].loop_dec_first = false;
            evals += 1;
            let (v, out) = eval(&cand);
            if same_class(&v, class) {
                cand.schedule = Some(out.conc.effective.clone());
                cur = cand;
            }
        }
    }
    // simplify addends
    for t in 0..cur.execs.len() {
        for j in 0..cur.execs[t].adds.len() {
            if evals >= budget() {
                break;
            }
            let mut cand = cur.clone();
            cand.execs[t].adds[j].addend = 1;
            cand.execs[t].adds[j].via_lddw = false;
            cand.execs[t].adds[j].src_is_base = false;
            cand.execs[t].adds[j].src_shape = 0;
            cand.execs[t].adds[j].from_load = None;
            cand.execs[t].adds[j].load_abs = false;
            evals += 1;
            let (v, _) = eval(&cand);
            if same_class(&v, class) {
                cur = cand;
            }
        }
    }
    (cur, evals)
}

fn count_switches(s: &[u8]) -> usize {
    (1..s.len()).filter(|k| s[*k] != s[*k - 1]).count()
}

// ---------------------------------------------------------------------------------------------
// CLI
// ---------------------------------------------------------------------------------------------

fn arg<'a>(args: &'a [String], name: &str) -> Option<&'a str> {
    args.iter().position(|a| a == name).and_then(|i| args.get(i + 1)).map(|s| s.as_str())
}

fn trace(sc: &Scenario, out: &RunOutput) -> Vec<String> {
    let mut t = Vec::new();
    for (i, e) in sc.execs.iter().enumerate() {
        t.push(format!("execution #{}: {} via {}: {}", i, e.engine.name(), e.reach.name(), disasm(&build_program(e, 0x1000_0000_0000))));
        t.push(format!("    build {} | alone {} | concurrently {}", out.outs[i].build.short(), out.outs[i].solo.short(), out.outs[i].conc.short()));
        t.push(format!("    alone: {}", out.solo[i].events.iter().map(ev_desc).collect::<Vec<_>>().join(", ")));
    }
    t.push(format!("schedule decisions: {:?}", out.conc.effective));
    for e in &out.conc.events {
        t.push(format!("    [exec #{} {}] {}", e.thread, sc.execs[e.thread as usize].engine.name(), ev_desc(e)));
    }
    t
}

fn replay_json(sc: &Scenario, seed: u64, index: u64, v: &Option<Violation>, out: &RunOutput, log_hash: u64) -> JsonValue {
    let mut o = JsonValue::new_object();
    o["engine"] = "xaddsim".into();
    o["property"] = "C18".into();
    o["verif_seed"] = simcore::ju64(seed);
    o["run_index"] = simcore::ju64(index);
    o["scenario"] = sc.to_json();
    o["one_cpu"] = ONE_CPU.load(std::sync::atomic::Ordering::Relaxed).into();
    if let Some(v) = v {
        let mut vj = JsonValue::new_object();
        vj["class"] = v.class.clone().into();
        vj["detail"] = v.detail.clone().into();
        o["violation"] = vj;
    }
    o["log_hash"] = simcore::ju64(log_hash);
    o["trace"] = JsonValue::Array(trace(sc, out).iter().map(|s| s.as_str().into()).collect());
    o
}

fn scenario_for(seed: u64, index: u64) -> (Scenario, Rng) {
    let mut rng = Rng::new(mix(seed ^ 0x1818_1818, index));
    let mut sc = generate(&mut rng);
    sc.resolve(sim().prog_view as u64);
    (sc, rng)
}

fn cmd_run(args: &[String]) -> i32 {
    let seed: u64 = arg(args, "--seed").unwrap_or("1").parse().expect("--seed");
    let start: u64 = arg(args, "--start").unwrap_or("0").parse().expect("--start");
    let count: u64 = arg(args, "--count").unwrap_or("100").parse().expect("--count");
    let out_path = arg(args, "--out").expect("--out FILE");
    let hash_every: u64 = arg(args, "--hash-every").unwrap_or("1").parse().expect("--hash-every");
    // alternatively: record the event-log hash of the first K runs of this range only
    let hash_first: Option<u64> = arg(args, "--hash-first").map(|v| v.parse().expect("--hash-first"));
    let max_violations: u64 = arg(args, "--max-violations").unwrap_or("12").parse().expect("--max-violations");
    let t0 = Instant::now();
    let mut st = Stats::default();
    let mut hashes: Vec<(u64, u64)> = Vec::new();
    let mut vclasses: BTreeMap<String, u64> = BTreeMap::new();
    let mut violations: Vec<JsonValue> = Vec::new();
    let mut samples: Vec<JsonValue> = Vec::new();
    let mut runs_done = 0u64;
    let mut stop_after_abort = false;
    for index in start..start + count {
        let (mut sc, mut rng) = scenario_for(seed, index);
        let out = run_scenario(&sc, &mut rng);
        runs_done += 1;
        let v = check(&sc, &out);
        let (h, sig, nontrivial) = summarise(&sc, &out, &mut st);
        if nontrivial {
            st.nontrivial += 1;
            st.sigs.insert(sig);
        }
        if out.conc.overflow {
            st.inc("event_buffer_overflow_runs", 1);
        }
        let want_hash = match hash_first {
            Some(k) => index - start < k,
            None => index % hash_every == 0,
        };
        if want_hash && v.is_none() && !sc.addr_dependent() {
            hashes.push((index, h));
        }
        if samples.len() < 2 && nontrivial && v.is_none() {
            let mut s = JsonValue::new_object();
            s["run_index"] = simcore::ju64(index);
            s["trace"] = JsonValue::Array(trace(&sc, &out).iter().map(|x| x.as_str().into()).collect());
            samples.push(s);
        }
        if let Some(viol) = v {
            let c = vclasses.entry(viol.class.clone()).or_insert(0);
            *c += 1;
            if *c == 1 {
                // from here on the schedule is explicit
                sc.schedule = Some(out.conc.effective.clone());
                let original_decisions = out.conc.effective.len();
                let aborted = out.outs.iter().any(|o| matches!(o.solo, Outcome::Signal(6)) || matches!(o.conc, Outcome::Signal(6)));
                let (mut min_sc, evals) = if aborted { (sc.clone(), 0) } else { minimise(&sc, &viol.class) };
                let mut st1 = Stats::default();
                let (mut v1, mut o1) = if aborted { (Some(viol.clone()), out) } else { eval(&min_sc) };
                if !same_class(&v1, &viol.class) {
                    min_sc = sc.clone();
                    let r = eval(&min_sc);
                    v1 = r.0;
                    o1 = r.1;
                    if v1.is_none() {
                        v1 = Some(viol.clone());
                    }
                }
                let (h1, _, _) = summarise(&min_sc, &o1, &mut st1);
                let (v2, h2) = if aborted {
                    (v1.clone(), h1)
                } else {
                    let (v2, o2) = eval(&min_sc);
                    let (h2, _, _) = summarise(&min_sc, &o2, &mut st1);
                    (v2, h2)
                };
                let mut fixed = min_sc.clone();
                fixed.schedule = Some(o1.conc.effective.clone());
                let mut rep = replay_json(&fixed, seed, index, &v1, &o1, h1);
                rep["minimiser_evaluations"] = evals.into();
                rep["original_executions"] = sc.execs.len().into();
                rep["original_decisions"] = original_decisions.into();
                rep["replays_identically_in_process"] = (h1 == h2 && v1.as_ref().map(|x| &x.class) == v2.as_ref().map(|x| &x.class)).into();
                rep["history_kinds"] = JsonValue::Array(fixed.execs.iter().map(|e| format!("{}:{}", e.engine.name(), e.adds.iter().map(|a| format!("xadd{}", a.width as u32 * 8)).collect::<Vec<_>>().join("+")).into()).collect());
                violations.push(rep);
                if aborted {
                    // a recovered abort() leaves the C library's abort lock taken: stop this worker
                    stop_after_abort = true;
                }
            }
            if stop_after_abort || vclasses.values().sum::<u64>() >= max_violations {
                break;
            }
        }
    }
    let mut o = JsonValue::new_object();
    o["prop"] = "C18".into();
    o["seed"] = simcore::ju64(seed);
    o["start"] = simcore::ju64(start);
    o["count"] = simcore::ju64(count);
    o["runs_done"] = simcore::ju64(runs_done);
    o["nontrivial_runs"] = simcore::ju64(st.nontrivial);
    let mut cj = JsonValue::new_object();
    for (k, v) in &st.counters {
        cj[k.as_str()] = simcore::ju64(*v);
    }
    o["counters"] = cj;
    o["one_cpu_effective"] = ONE_CPU.load(std::sync::atomic::Ordering::Relaxed).into();
    o["schedule_sigs"] = JsonValue::Array(st.sigs.iter().map(|s| simcore::ju64(*s)).collect());
    o["hashes"] = JsonValue::Array(hashes.iter().map(|(i, h)| json::array![simcore::ju64(*i), simcore::ju64(*h)]).collect());
    let mut vc = JsonValue::new_object();
    for (k, v) in &vclasses {
        vc[k.as_str()] = simcore::ju64(*v);
    }
    o["violation_classes"] = vc;
    o["violations"] = JsonValue::Array(violations);
    o["samples"] = JsonValue::Array(samples);
    o["wall_s"] = t0.elapsed().as_secs_f64().into();
    std::fs::write(out_path, json::stringify_pretty(o, 1)).expect("write out");
    0
}

fn cmd_replay(args: &[String]) -> i32 {
    let path = match args.get(2) {
        Some(p) => p,
        None => return 2,
    };
    let text = match std::fs::read_to_string(path) {
        Ok(t) => t,
        Err(e) => {
            eprintln!("cannot read {}: {}", path, e);
            return 2;
        }
    };
    let v = match json::parse(&text) {
        Ok(v) => v,
        Err(e) => {
            eprintln!("bad replay file: {}", e);
            return 2;
        }
    };
    if v["one_cpu"].as_bool().unwrap_or(false) {
        bind_to_one_cpu();
    }
    let sc = match Scenario::from_json(&v["scenario"]) {
        Some(s) => s,
        None => {
            eprintln!("bad scenario");
            return 2;
        }
    };
    if sc.schedule.is_none() || sc.execs.len() > MAXT {
        eprintln!("replay file has no explicit schedule");
        return 2;
    }
    let mut sc = sc;
    sc.resolve(sim().prog_view as u64);
    let (viol, out) = eval(&sc);
    let mut st = Stats::default();
    let (h, _, _) = summarise(&sc, &out, &mut st);
    for l in trace(&sc, &out) {
        println!("{}", l);
    }
    let rec_class = v["violation"]["class"].as_str().unwrap_or("");
    let rec_hash = simcore::pu64(&v["log_hash"]).unwrap_or(0);
    match viol {
        Some(x) => {
            println!("{}: {}", x.class, x.detail);
            let same = x.class == rec_class && h == rec_hash;
            println!("replay: violation class '{}' (recorded '{}'), event-log hash {} (recorded {}): {}", x.class, rec_class, h, rec_hash, if same { "REPRODUCED EXACTLY" } else if x.class == rec_class { "same violation, different event log" } else { "DIFFERENT violation" });
            println!("VIOLATION property=C18 replay={}", path);
            1
        }
        None => {
            println!("replay: no violation on this tree (recorded '{}')", rec_class);
            0
        }
    }
}

fn cmd_show(args: &[String]) -> i32 {
    let seed: u64 = arg(args, "--seed").unwrap_or("1").parse().expect("--seed");
    let index: u64 = arg(args, "--index").unwrap_or("0").parse().expect("--index");
    let (sc, mut rng) = scenario_for(seed, index);
    let out = run_scenario(&sc, &mut rng);
    let v = check(&sc, &out);
    for l in trace(&sc, &out) {
        println!("{}", l);
    }
    println!("strategy {:?}, switches {}, violation {:?}", sc.strategy, out.conc.switches, v);
    0
}

fn main() {
    let args: Vec<String> = std::env::args().collect();
    std::panic::set_hook(Box::new(|_| {}));
    if args.iter().any(|a| a == "--deep") {
        DEEP.store(true, std::sync::atomic::Ordering::Relaxed);
    }
    if args.iter().any(|a| a == "--one-cpu") {
        bind_to_one_cpu();
    }
    sched::init();
    let code = match args.get(1).map(|s| s.as_str()) {
        Some("run") => cmd_run(&args),
        Some("replay") => cmd_replay(&args),
        Some("show") => cmd_show(&args),
        _ => {
            eprintln!("usage: xaddsim run|replay|show ...");
            2
        }
    };
    std::process::exit(code);
}
