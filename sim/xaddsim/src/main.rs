fn main(){}
