//! xaddmiri — the C18 scenario for the interpreter under Miri's seeded scheduler
//! (`-Zmiri-many-seeds`): real interpreter source, Rust abstract machine, data-race detector.
//!
//! N threads each build their own EbpfVmNoData whose program does K atomic adds on shared words
//! reached through registered allowed memory. A sequential pass measures what each execution
//! adds when alone; the concurrent pass must end at initial + the sum of those deltas.
//! Any lost update prints a MIRI-VIOLATION line and exits 1; a non-atomic access is reported by
//! Miri itself as a data race on every seed.


fn splitmix(s: &mut u64) -> u64 {
    *s = s.wrapping_add(0x9E37_79B9_7F4A_7C15);
    let mut z = *s;
    z = (z ^ (z >> 30)).wrapping_mul(0xBF58_476D_1CE4_E5B9);
    z = (z ^ (z >> 27)).wrapping_mul(0x94D0_49BB_1331_11EB);
    z ^ (z >> 31)
}

fn ins(opc: u8, dst: u8, src: u8, off: i16, imm: i32) -> [u8; 8] {
    let o = off.to_le_bytes();
    let i = imm.to_le_bytes();
    [opc, (src << 4) | (dst & 0xf), o[0], o[1], i[0], i[1], i[2], i[3]]
}

#[derive(Clone, Copy)]
struct Add {
    width: u8,
    off: i16,
    addend: u64,
}

fn program(base: u64, adds: &[Add]) -> Vec<u8> {
    let mut v = Vec::new();
    v.extend_from_slice(&ins(0x18, 1, 0, 0, base as u32 as i32));
    v.extend_from_slice(&ins(0, 0, 0, 0, (base >> 32) as u32 as i32));
    for a in adds {
        v.extend_from_slice(&ins(0x18, 2, 0, 0, a.addend as u32 as i32));
        v.extend_from_slice(&ins(0, 0, 0, 0, (a.addend >> 32) as u32 as i32));
        v.extend_from_slice(&ins(if a.width == 4 { 0xc3 } else { 0xdb }, 1, 2, a.off, 0));
    }
    v.extend_from_slice(&ins(0xb7, 0, 0, 0, 0));
    v.extend_from_slice(&ins(0x95, 0, 0, 0, 0));
    v
}

const WORDS: usize = 4;

/// The shared words. The harness only touches them with plain accesses while no execution is
/// running (thread joins order them after the executions' atomic accesses), so that Miri never
/// sees mixed-size *atomic* accesses of its own making.
#[repr(align(8))]
struct Shared(std::cell::UnsafeCell<[u64; WORDS]>);
unsafe impl Sync for Shared {}
static SHARED: Shared = Shared(std::cell::UnsafeCell::new([0; WORDS]));

fn snapshot() -> [u64; WORDS] {
    unsafe { *SHARED.0.get() }
}

fn reset(init: &[u64; WORDS]) {
    unsafe { *SHARED.0.get() = *init }
}

fn run_one(base: u64, adds: &[Add]) -> Result<u64, String> {
    let prog = program(base, adds);
    let mut vm = rbpf::EbpfVmNoData::new(Some(&prog)).map_err(|e| e.to_string())?;
    vm.register_allowed_memory(base..base + (WORDS * 8) as u64);
    vm.execute_program().map_err(|e| e.to_string())
}

fn main() {
    let verif_seed: u64 = std::env::args().nth(1).and_then(|s| s.parse().ok()).unwrap_or(1);
    // Miri's own seed (-Zmiri-many-seeds) is not visible to the program, but it decides where
    // allocations land: taking a heap address into the scenario seed gives every Miri seed its own
    // pair of scenarios, and the same Miri seed the same pair again (replay).
    let probe = Box::new(0u8);
    let layout_salt = (&*probe as *const u8 as u64) >> 4;
    let mut failures = 0;
    for scenario in 0..2u64 {
        let mut s = verif_seed ^ 0xC18_C18 ^ (scenario << 32) ^ layout_salt.wrapping_mul(0x9E37_79B9_7F4A_7C15);
        let n = 2 + (splitmix(&mut s) % 2) as usize;
        // one or two hot words, each either one u64 or two u32 halves
        let hot = 1 + (splitmix(&mut s) % 2) as usize;
        let wide: Vec<bool> = (0..hot).map(|_| splitmix(&mut s) % 2 == 0).collect();
        let mut init = [0u64; WORDS];
        for w in init.iter_mut() {
            *w = if splitmix(&mut s) % 2 == 0 { u64::MAX } else { splitmix(&mut s) };
        }
        let mut threads: Vec<Vec<Add>> = Vec::new();
        for _ in 0..n {
            let k = 1 + (splitmix(&mut s) % 3) as usize;
            let mut adds = Vec::new();
            for _ in 0..k {
                let h = (splitmix(&mut s) % hot as u64) as usize;
                let (width, off) = if wide[h] { (8u8, (h * 8) as i16) } else { (4u8, (h * 8 + 4 * (splitmix(&mut s) % 2) as usize) as i16) };
                let addend = match splitmix(&mut s) % 4 {
                    0 => 1 + splitmix(&mut s) % 255,
                    1 => splitmix(&mut s) | 1,
                    2 => (1u64 << 63) | (1 << 31) | 1,
                    _ => (1 + splitmix(&mut s) % 1000).wrapping_neg(),
                };
                adds.push(Add { width, off, addend });
            }
            threads.push(adds);
        }
        let base = SHARED.0.get() as u64;
        // sequential pass: what does each execution add when alone?
        reset(&init);
        let mut expect = init;
        let mut ok = true;
        for adds in &threads {
            let before = snapshot();
            if let Err(e) = run_one(base, adds) {
                println!("MIRI-VIOLATION property=C18 scenario={} aligned atomic add refused when alone: {}", scenario, e);
                ok = false;
            }
            let after = snapshot();
            // model: apply the addends to `before` and compare with what the execution did alone
            let mut model = before;
            for a in adds {
                let i = a.off as usize / 8;
                if a.width == 8 {
                    model[i] = model[i].wrapping_add(a.addend);
                } else {
                    let sh = (a.off as usize % 8) * 8;
                    let half = ((model[i] >> sh) as u32).wrapping_add(a.addend as u32);
                    model[i] = (model[i] & !(0xffff_ffffu64 << sh)) | ((half as u64) << sh);
                }
            }
            if model != after {
                println!("MIRI-VIOLATION property=C18 scenario={} alone: words {:x?} expected {:x?} (adds the source register truncated to the width, touches no other byte)", scenario, after, model);
                ok = false;
            }
            expect = model;
        }
        // concurrent pass
        reset(&init);
        std::thread::scope(|sc| {
            for adds in &threads {
                sc.spawn(move || {
                    let _ = run_one(base, adds);
                });
            }
        });
        let got = snapshot();
        if got != expect {
            println!("MIRI-VIOLATION property=C18 scenario={} lost update: {} concurrent interpreter executions ended at {:x?}, initial + sum of addends is {:x?}", scenario, n, got, expect);
            ok = false;
        }
        // misaligned: must be refused and leave memory unchanged
        reset(&init);
        let r = run_one(base, &[Add { width: 8, off: 4, addend: 7 }]);
        let r4 = run_one(base, &[Add { width: 4, off: 2, addend: 7 }]);
        if r.is_ok() || r4.is_ok() || snapshot() != init {
            println!("MIRI-VIOLATION property=C18 scenario={} misaligned atomic add: results {:?} / {:?}, memory changed: {}", scenario, r.is_ok(), r4.is_ok(), snapshot() != init);
            ok = false;
        }
        if !ok {
            failures += 1;
        }
    }
    if failures > 0 {
        std::process::exit(1);
    }
    println!("MIRI-OK verif_seed={} layout_salt={:#x}", verif_seed, layout_salt);
}
